#ifndef VERIF_PYBIND11_NUMPY_H
#define VERIF_PYBIND11_NUMPY_H
#include <pybind11/pybind11.h>
namespace pybind11 {
template <class T> struct array_t {
    array_t() {}
    template <class S> array_t(const S &, const T *) {}
    buffer_info request() { return buffer_info(); }
};
}  // namespace pybind11
#endif
