#ifndef VERIF_PYBIND11_NUMPY_H
#define VERIF_PYBIND11_NUMPY_H
#include <pybind11/pybind11.h>
namespace pybind11 {
/* a one-owner array: like pybind11's, array_t(shape, ptr) COPIES the data it is given, request() exposes the
   array's own storage */
template <class T> struct array_t {
    std::shared_ptr<std::vector<T>> verif_buf;
    std::vector<ssize_t> verif_shape;
    array_t() : verif_buf(std::make_shared<std::vector<T>>()) {}
    template <class S> array_t(const S &shape, const T *p) {
        ssize_t n = 1;
        for (auto s : shape) { verif_shape.push_back((ssize_t)s); n *= (ssize_t)s; }
        verif_buf = std::make_shared<std::vector<T>>(p, p + n);
    }
    buffer_info request() {
        buffer_info b;
        b.ptr = verif_buf->data();
        b.shape = verif_shape;
        b.strides.assign(verif_shape.size(), (ssize_t)sizeof(T));
        b.size = (ssize_t)verif_buf->size();
        b.ndim = (ssize_t)verif_shape.size();
        return b;
    }
};
}  // namespace pybind11
#endif
