/* minimal stand-in for pybind11: enough for the PYMODULE blocks of the rendered headers to be type-checked
   (every &Class::member named in a .def(...) must exist, every argument expression must be well-formed) */
#ifndef VERIF_PYBIND11_H
#define VERIF_PYBIND11_H
/* the standard headers pybind11/detail/common.h pulls in: a missing #include in the rendered code must be neither
   hidden nor invented by this stand-in */
#include <cstddef>
#include <cstring>
#include <exception>
#include <forward_list>
#include <memory>
#include <stdexcept>
#include <string>
#include <type_traits>
#include <typeindex>
#include <unordered_map>
#include <unordered_set>
#include <vector>
#include <sys/types.h>
namespace pybind11 {
struct module_ {};
struct arg {
    const char *name;
    arg(const char *s) : name(s) {}
    template <class T> arg &operator=(T &&) { return *this; }
};
struct verif_init {};
inline verif_init init() { return verif_init(); }
template <class... X> struct class_ {
    template <class... A> class_(A &&...) {}
    template <class... A> class_ &def(A &&...) { return *this; }
    template <class... A> class_ &def_readwrite(A &&...) { return *this; }
    template <class... A> class_ &def_readonly(A &&...) { return *this; }
    template <class... A> class_ &def_property(A &&...) { return *this; }
};
struct buffer_info {
    void *ptr = nullptr;
    std::vector<ssize_t> shape;
    std::vector<ssize_t> strides;
    ssize_t size = 0, ndim = 0;
};
}  // namespace pybind11
#define VERIF_PYBIND_CAT2(a, b) a##b
#define VERIF_PYBIND_CAT(a, b) VERIF_PYBIND_CAT2(a, b)
#define PYBIND11_MODULE(name, var) static void VERIF_PYBIND_CAT(verif_pybind_module_, __LINE__)(pybind11::module_ &var)
#endif
