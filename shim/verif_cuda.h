/* host-memory emulation of the few CUDA runtime / cuSPARSE / cuSOLVER names the cusparse
   variant of naunet.cpp touches (C19 only). "Device" memory is ordinary heap memory. */
#ifndef VERIF_CUDA_H
#define VERIF_CUDA_H
#include <algorithm>
#include <stdlib.h>
#include <string.h>
typedef int cudaError_t;
#define cudaSuccess 0
typedef struct verif_cudaStream { int id; } *cudaStream_t;
static inline cudaError_t cudaStreamCreate(cudaStream_t *s) { *s = (cudaStream_t)malloc(sizeof(**s)); (*s)->id = 0; return cudaSuccess; }
static inline cudaError_t cudaStreamDestroy(cudaStream_t s) { free(s); return cudaSuccess; }
static inline cudaError_t cudaMallocHost(void **p, size_t n) { *p = malloc(n ? n : 1); return cudaSuccess; }
static inline cudaError_t cudaFreeHost(void *p) { free(p); return cudaSuccess; }
static inline cudaError_t cudaDeviceSynchronize() { return cudaSuccess; }
static inline cudaError_t cudaGetLastError() { return cudaSuccess; }
static inline const char *cudaGetErrorName(cudaError_t) { return "cudaSuccess"; }
typedef void *cusparseHandle_t;
typedef void *cusolverSpHandle_t;
static inline int cusparseCreate(cusparseHandle_t *h) { *h = malloc(1); return 0; }
static inline int cusparseDestroy(cusparseHandle_t h) { free(h); return 0; }
static inline int cusparseSetStream(cusparseHandle_t, cudaStream_t) { return 0; }
static inline int cusolverSpCreate(cusolverSpHandle_t *h) { *h = malloc(1); return 0; }
static inline int cusolverSpDestroy(cusolverSpHandle_t h) { free(h); return 0; }
static inline int cusolverSpSetStream(cusolverSpHandle_t, cudaStream_t) { return 0; }
/* execution policies: same interface as sundials_cuda_policies.hpp (gridSize / blockSize / stream) */
class SUNCudaExecPolicy {
   public:
    virtual size_t gridSize(size_t numWorkUnits = 0, size_t blockDim = 0) const = 0;
    virtual size_t blockSize(size_t numWorkUnits = 0, size_t gridDim = 0) const = 0;
    virtual const cudaStream_t *stream() const = 0;
    virtual ~SUNCudaExecPolicy() {}
};
class SUNCudaThreadDirectExecPolicy : public SUNCudaExecPolicy {
   public:
    SUNCudaThreadDirectExecPolicy(int blockdim, cudaStream_t s = 0) : b_(blockdim), s_(s) {}
    size_t gridSize(size_t n = 0, size_t = 0) const override { return (n + b_ - 1) / b_; }
    size_t blockSize(size_t = 0, size_t = 0) const override { return b_; }
    const cudaStream_t *stream() const override { return &s_; }
    int b_; cudaStream_t s_;
};
class SUNCudaBlockReduceExecPolicy : public SUNCudaExecPolicy {
   public:
    SUNCudaBlockReduceExecPolicy(int blockdim, int griddim = 0, cudaStream_t s = 0) : b_(blockdim), g_(griddim), s_(s) {}
    size_t gridSize(size_t n = 0, size_t = 0) const override { return g_ > 0 ? (size_t)g_ : (n + 2 * b_ - 1) / (2 * b_); }
    size_t blockSize(size_t = 0, size_t = 0) const override { return b_; }
    const cudaStream_t *stream() const override { return &s_; }
    int b_, g_; cudaStream_t s_;
};
/* ---- host execution of kernels (C03 conformance): K<<<g, b, shmem, stream>>>(args) is rewritten by the harness to
   VERIF_LAUNCH(K, g, b)(args); the "threads" of the grid run one after the other (the kernels have no
   intra-block communication), each seeing its own blockIdx/threadIdx */
struct verif_dim3 { unsigned x, y, z; };
#ifdef VERIF_CUDA_DEFINE_DIMS
verif_dim3 blockIdx = {0, 0, 0}, blockDim = {1, 1, 1}, threadIdx = {0, 0, 0}, gridDim = {1, 1, 1};
long verif_kernel_threads = 0;
#else
extern verif_dim3 blockIdx, blockDim, threadIdx, gridDim;
extern long verif_kernel_threads;
#endif
template <class F> struct verif_launcher {
    F f; unsigned g, b;
    template <class... A> void operator()(A... a) const {
        gridDim = {g, 1, 1}; blockDim = {b, 1, 1};
        for (unsigned bi = 0; bi < g; bi++) for (unsigned ti = 0; ti < b; ti++) { blockIdx = {bi, 0, 0}; threadIdx = {ti, 0, 0}; verif_kernel_threads++; f(a...); }
    }
};
#define VERIF_LAUNCH(K, G, B) (verif_launcher<decltype(&K)>{&K, (unsigned)(G), (unsigned)(B)})
enum cudaMemcpyKind { cudaMemcpyHostToHost = 0, cudaMemcpyHostToDevice = 1, cudaMemcpyDeviceToHost = 2, cudaMemcpyDeviceToDevice = 3 };
static inline cudaError_t cudaMalloc(void **p, size_t n) { *p = malloc(n ? n : 1); return cudaSuccess; }   /* exactly sized: ASan sees overruns */
static inline cudaError_t cudaFree(void *p) { free(p); return cudaSuccess; }
static inline cudaError_t cudaMemcpy(void *d, const void *s, size_t n, cudaMemcpyKind) { memcpy(d, s, n); return cudaSuccess; }
static inline cudaError_t cudaMemcpyAsync(void *d, const void *s, size_t n, cudaMemcpyKind, cudaStream_t = 0) { memcpy(d, s, n); return cudaSuccess; }
static inline cudaError_t cudaStreamSynchronize(cudaStream_t) { return cudaSuccess; }
#endif
