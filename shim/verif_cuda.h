/* host-memory emulation of the few CUDA runtime / cuSPARSE / cuSOLVER names the cusparse
   variant of naunet.cpp touches (C19 only). "Device" memory is ordinary heap memory. */
#ifndef VERIF_CUDA_H
#define VERIF_CUDA_H
#include <algorithm>
#include <stdlib.h>
#include <string.h>
typedef int cudaError_t;
#define cudaSuccess 0
typedef struct verif_cudaStream { int id; } *cudaStream_t;
static inline cudaError_t cudaStreamCreate(cudaStream_t *s) { *s = (cudaStream_t)malloc(sizeof(**s)); (*s)->id = 0; return cudaSuccess; }
static inline cudaError_t cudaStreamDestroy(cudaStream_t s) { free(s); return cudaSuccess; }
static inline cudaError_t cudaMallocHost(void **p, size_t n) { *p = malloc(n ? n : 1); return cudaSuccess; }
static inline cudaError_t cudaFreeHost(void *p) { free(p); return cudaSuccess; }
static inline cudaError_t cudaDeviceSynchronize() { return cudaSuccess; }
static inline cudaError_t cudaGetLastError() { return cudaSuccess; }
static inline const char *cudaGetErrorName(cudaError_t) { return "cudaSuccess"; }
typedef void *cusparseHandle_t;
typedef void *cusolverSpHandle_t;
static inline int cusparseCreate(cusparseHandle_t *h) { *h = malloc(1); return 0; }
static inline int cusparseDestroy(cusparseHandle_t h) { free(h); return 0; }
static inline int cusparseSetStream(cusparseHandle_t, cudaStream_t) { return 0; }
static inline int cusolverSpCreate(cusolverSpHandle_t *h) { *h = malloc(1); return 0; }
static inline int cusolverSpDestroy(cusolverSpHandle_t h) { free(h); return 0; }
static inline int cusolverSpSetStream(cusolverSpHandle_t, cudaStream_t) { return 0; }
class SUNCudaExecPolicy { public: virtual ~SUNCudaExecPolicy() {} };
class SUNCudaThreadDirectExecPolicy : public SUNCudaExecPolicy {
   public:
    SUNCudaThreadDirectExecPolicy(int blockdim, cudaStream_t s = 0) : b_(blockdim), s_(s) {}
    int b_; cudaStream_t s_;
};
class SUNCudaBlockReduceExecPolicy : public SUNCudaExecPolicy {
   public:
    SUNCudaBlockReduceExecPolicy(int blockdim, int griddim = 0, cudaStream_t s = 0) : b_(blockdim), g_(griddim), s_(s) {}
    int b_, g_; cudaStream_t s_;
};
#endif
