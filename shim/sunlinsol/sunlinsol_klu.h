#ifndef VERIF_SUNLINSOL_KLU_H
#define VERIF_SUNLINSOL_KLU_H
#include <sundials/sundials_linearsolver.h>
#include <sunmatrix/sunmatrix_sparse.h>
static inline SUNLinearSolver SUNLinSol_KLU(N_Vector y, SUNMatrix A, SUNContext ctx) {
    SUNLinearSolver S = (SUNLinearSolver)calloc(1, sizeof(*S));
    S->kind = 1; S->n = A->N; S->sunctx = ctx; S->piv = NULL;
    return S;
}
#endif
