#ifndef VERIF_SUNLINSOL_CUSOLVERSP_H
#define VERIF_SUNLINSOL_CUSOLVERSP_H
#include <verif_cuda.h>
#include <sundials/sundials_linearsolver.h>
static inline SUNLinearSolver SUNLinSol_cuSolverSp_batchQR(N_Vector, SUNMatrix A, cusolverSpHandle_t, SUNContext ctx) {
    SUNLinearSolver S = (SUNLinearSolver)calloc(1, sizeof(*S));
    S->kind = 2; S->n = A->N; S->sunctx = ctx; S->piv = NULL;
    return S;
}
static inline void SUNLinSol_cuSolverSp_batchQR_GetDeviceSpace(SUNLinearSolver, size_t *a, size_t *b) { *a = 0; *b = 0; }
#endif
