#ifndef VERIF_SUNLINSOL_DENSE_H
#define VERIF_SUNLINSOL_DENSE_H
#include <sundials/sundials_linearsolver.h>
#include <sunmatrix/sunmatrix_dense.h>
static inline SUNLinearSolver SUNLinSol_Dense(N_Vector y, SUNMatrix A, SUNContext ctx) {
    SUNLinearSolver S = (SUNLinearSolver)calloc(1, sizeof(*S));
    S->kind = 0; S->n = A->N; S->sunctx = ctx;
    S->piv = (sunindextype *)malloc(sizeof(sunindextype) * (size_t)A->N + (A->N ? 0 : 1));
    return S;
}
#endif
