/* verification shim of the SUNDIALS API surface naunet's templates use.
   Real data layout, exactly-sized heap buffers (so ASan sees off-by-one sizes). */
#ifndef VERIF_SUNDIALS_TYPES_H
#define VERIF_SUNDIALS_TYPES_H
#include <stddef.h>
#include <stdint.h>
#include <stdio.h>
#include <stdlib.h>
#include <float.h>
typedef double realtype;
typedef double sunrealtype;
typedef int64_t sunindextype;
typedef int booleantype;
#define SUNTRUE 1
#define SUNFALSE 0
#define RCONST(x) x
#define BIG_REAL DBL_MAX
#define SMALL_REAL DBL_MIN
#define UNIT_ROUNDOFF DBL_EPSILON
struct _verif_SUNContext { int live; };
typedef struct _verif_SUNContext *SUNContext;
static inline int SUNContext_Create(void *comm, SUNContext *ctx) {
    *ctx = (SUNContext)malloc(sizeof(struct _verif_SUNContext));
    (*ctx)->live = 1;
    return 0;
}
static inline int SUNContext_Free(SUNContext *ctx) {
    if (ctx && *ctx) { free(*ctx); *ctx = NULL; }
    return 0;
}
#endif
