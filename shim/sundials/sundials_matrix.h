#ifndef VERIF_SUNDIALS_MATRIX_H
#define VERIF_SUNDIALS_MATRIX_H
#include <string.h>
#include "sundials_types.h"
#include "sundials_nvector.h"
enum { VERIF_MAT_DENSE = 0, VERIF_MAT_SPARSE = 1 };
#define CSC_MAT 0
#define CSR_MAT 1
struct _generic_SUNMatrix {
    int kind;
    sunindextype M, N;
    /* dense: column-major, exactly M*N doubles, cols[j] -> column j */
    realtype *data;
    realtype **cols;
    /* sparse: exactly NNZ values / NNZ index values / NP+1 index pointers */
    sunindextype nnz_, NP;
    int sparsetype;
    sunindextype *indexvals;
    sunindextype *indexptrs;
    SUNContext sunctx;
};
typedef struct _generic_SUNMatrix *SUNMatrix;
static inline void SUNMatDestroy(SUNMatrix A) {
    if (!A) return;
    free(A->data); free(A->cols); free(A->indexvals); free(A->indexptrs); free(A);
}
static inline int SUNMatZero(SUNMatrix A) {
    if (A->kind == VERIF_MAT_DENSE) {
        for (sunindextype i = 0; i < A->M * A->N; i++) A->data[i] = 0.0;
    } else {
        for (sunindextype i = 0; i < A->nnz_; i++) { A->data[i] = 0.0; A->indexvals[i] = 0; }
        for (sunindextype i = 0; i < A->NP + 1; i++) A->indexptrs[i] = 0;
    }
    return 0;
}
#endif
