#ifndef VERIF_SUNDIALS_NVECTOR_H
#define VERIF_SUNDIALS_NVECTOR_H
#include <string.h>
#include "sundials_types.h"
class SUNCudaExecPolicy;
struct _verif_NVectorContent { sunindextype length; booleantype own_data; realtype *data; SUNCudaExecPolicy *stream_exec_policy; };
struct _generic_N_Vector { struct _verif_NVectorContent *content; SUNContext sunctx; };
typedef struct _generic_N_Vector *N_Vector;
static inline realtype *N_VGetArrayPointer(N_Vector v) { return v->content->data; }
static inline void N_VSetArrayPointer(realtype *d, N_Vector v) { v->content->data = d; }
static inline sunindextype N_VGetLength(N_Vector v) { return v->content->length; }
static inline void N_VDestroy(N_Vector v) {
    if (!v) return;
    if (v->content->own_data && v->content->data) free(v->content->data);
    free(v->content);
    free(v);
}
static inline void N_VFreeEmpty(N_Vector v) { if (!v) return; free(v->content); free(v); }
static inline void N_VConst(realtype c, N_Vector v) {
    for (sunindextype i = 0; i < v->content->length; i++) v->content->data[i] = c;
}
#endif
