#ifndef VERIF_SUNDIALS_MATH_H
#define VERIF_SUNDIALS_MATH_H
#include <math.h>
#include "sundials_types.h"
#define SUNMIN(A, B) ((A) < (B) ? (A) : (B))
#define SUNMAX(A, B) ((A) > (B) ? (A) : (B))
#define SUNSQR(A) ((A) * (A))
#define SUNRsqrt(x) ((x) <= 0.0 ? 0.0 : sqrt((x)))
#define SUNRabs(x) (fabs((x)))
#define SUNRexp(x) (exp((x)))
#endif
