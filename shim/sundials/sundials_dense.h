#ifndef VERIF_SUNDIALS_DENSE_H
#define VERIF_SUNDIALS_DENSE_H
#include "sundials_types.h"
#endif
