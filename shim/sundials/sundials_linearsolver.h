#ifndef VERIF_SUNDIALS_LINEARSOLVER_H
#define VERIF_SUNDIALS_LINEARSOLVER_H
#include "sundials_matrix.h"
#include "sundials_nvector.h"
struct _generic_SUNLinearSolver { int kind; sunindextype n; sunindextype *piv; SUNContext sunctx; };
typedef struct _generic_SUNLinearSolver *SUNLinearSolver;
static inline int SUNLinSolFree(SUNLinearSolver S) { if (S) { free(S->piv); free(S); } return 0; }
/* dense LU with partial pivoting, in place in A (column-major), as SUNLinSol_Dense does */
static inline int SUNLinSolSetup(SUNLinearSolver S, SUNMatrix A) {
    if (A->kind != VERIF_MAT_DENSE) return 0;
    sunindextype n = A->N;
    for (sunindextype k = 0; k < n; k++) {
        sunindextype l = k;
        for (sunindextype i = k + 1; i < n; i++)
            if ((A->cols[k][i] < 0 ? -A->cols[k][i] : A->cols[k][i]) > (A->cols[k][l] < 0 ? -A->cols[k][l] : A->cols[k][l])) l = i;
        S->piv[k] = l;
        if (A->cols[k][l] == 0.0) return (int)(k + 1);
        if (l != k)
            for (sunindextype j = 0; j < n; j++) { realtype t = A->cols[j][l]; A->cols[j][l] = A->cols[j][k]; A->cols[j][k] = t; }
        realtype mult = 1.0 / A->cols[k][k];
        for (sunindextype i = k + 1; i < n; i++) A->cols[k][i] *= mult;
        for (sunindextype j = k + 1; j < n; j++) {
            realtype a_kj = A->cols[j][k];
            if (a_kj != 0.0)
                for (sunindextype i = k + 1; i < n; i++) A->cols[j][i] -= a_kj * A->cols[k][i];
        }
    }
    return 0;
}
static inline int SUNLinSolSolve(SUNLinearSolver S, SUNMatrix A, N_Vector x, N_Vector b, realtype tol) {
    if (A->kind != VERIF_MAT_DENSE) return -1;
    sunindextype n = A->N;
    realtype *xd = x->content->data, *bd = b->content->data;
    for (sunindextype i = 0; i < n; i++) xd[i] = bd[i];
    for (sunindextype k = 0; k < n; k++) {
        sunindextype pk = S->piv[k];
        if (pk != k) { realtype t = xd[k]; xd[k] = xd[pk]; xd[pk] = t; }
    }
    for (sunindextype k = 0; k < n - 1; k++)
        for (sunindextype i = k + 1; i < n; i++) xd[i] -= xd[k] * A->cols[k][i];
    for (sunindextype k = n - 1; k > 0; k--) {
        xd[k] /= A->cols[k][k];
        for (sunindextype i = 0; i < k; i++) xd[i] -= xd[k] * A->cols[k][i];
    }
    if (n > 0) xd[0] /= A->cols[0][0];
    return 0;
}
#endif
