/* odeint surface used by naunet: rosenbrock4 + make_controlled + integrate_adaptive with observer.
   integrate_adaptive here is a *scripted mock* (see VERIF_ODEINT_SCRIPT in cxx/c19_odeint_driver.cpp):
   by default it performs one exact step of y' = f(y) (explicit Euler over the whole interval) so that
   code which only needs to link and run once works; the C19 driver replaces the step script. */
#ifndef VERIF_ODEINT_HPP
#define VERIF_ODEINT_HPP
#include <boost/numeric/ublas/verif_ublas.hpp>
#include <stdexcept>
#include <utility>
#include <cstdio>
#include <cstdlib>
namespace boost { namespace numeric { namespace odeint {
template <class T> struct rosenbrock4 { typedef T value_type; };
template <class S> struct controlled_stepper { double atol, rtol; };
template <class S> controlled_stepper<S> make_controlled(double atol, double rtol) { controlled_stepper<S> c; c.atol = atol; c.rtol = rtol; return c; }
template <class S> controlled_stepper<S> make_dense_output(double atol, double rtol) { controlled_stepper<S> c; c.atol = atol; c.rtol = rtol; return c; }
struct verif_script {
    /* number of steps the mock takes; <0: default (1). throw_at: step index (1-based) at which the
       system function 'throws' (std::runtime_error) ; 0: never */
    long nsteps; long throw_at; int unit_rate;
};
inline verif_script &verif_odeint_script() { static verif_script s = {-1, 0, 0}; return s; }
template <class Stepper, class System, class State, class Time, class Obs>
size_t integrate_adaptive(Stepper st, System sys, State &y, Time t0, Time t1, Time dt, Obs obs) {
    verif_script &s = verif_odeint_script();
    long n = s.nsteps < 0 ? 1 : s.nsteps;
    obs(y, t0);                       /* odeint calls the observer at the start point */
    Time t = t0;
    for (long i = 1; i <= n; i++) {
        if (s.throw_at == i) throw std::runtime_error("verif: system function failed");
        Time h = (t1 - t0) / (Time)n;
        State ydot(y.size());
        sys.first(y, ydot, t);
        for (size_t k = 0; k < y.size(); k++) y[k] += h * (s.unit_rate ? 1.0 : ydot[k]);
        t = (i == n) ? t1 : t + h;
        obs(y, t);                    /* and after every accepted step */
    }
    return (size_t)n;
}
template <class Stepper, class System, class State, class Time>
size_t integrate_adaptive(Stepper st, System sys, State &y, Time t0, Time t1, Time dt) {
    struct noobs { void operator()(const State &, Time) {} } o;
    return integrate_adaptive(st, sys, y, t0, t1, dt, o);
}
}}}
#endif
