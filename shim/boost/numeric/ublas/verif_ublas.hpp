/* minimal working uBLAS surface used by naunet's odeint templates */
#ifndef VERIF_UBLAS_HPP
#define VERIF_UBLAS_HPP
#include <cstddef>
#include <limits>
#include <vector>
#include <stdexcept>
#include <cmath>
#include <utility>
namespace boost { namespace numeric { namespace ublas {
template <class T> inline T verif_poison() { return std::numeric_limits<T>::has_quiet_NaN ? std::numeric_limits<T>::quiet_NaN() : T(); }
template <class T> class vector {
    std::vector<T> d_;
   public:
    typedef T value_type;
    typedef std::size_t size_type;
    vector() {}
    /* Boost leaves the elements of a sized vector / matrix of doubles uninitialised: modelled by a poison value
       (quiet NaN), so that code relying on zero-initialisation shows */
    explicit vector(std::size_t n) : d_(n, verif_poison<T>()) {}
    vector(std::size_t n, const T &v) : d_(n, v) {}
    std::size_t size() const { return d_.size(); }
    void resize(std::size_t n) { d_.resize(n); }
    T &operator[](std::size_t i) { return d_.at(i); }   /* bounds-checked on purpose */
    const T &operator[](std::size_t i) const { return d_.at(i); }
    T &operator()(std::size_t i) { return d_.at(i); }
    const T &operator()(std::size_t i) const { return d_.at(i); }
    typename std::vector<T>::iterator begin() { return d_.begin(); }
    typename std::vector<T>::iterator end() { return d_.end(); }
    typename std::vector<T>::const_iterator begin() const { return d_.begin(); }
    typename std::vector<T>::const_iterator end() const { return d_.end(); }
};
template <class T> class zero_matrix {
    std::size_t r_, c_;
   public:
    zero_matrix(std::size_t r, std::size_t c) : r_(r), c_(c) {}
    std::size_t size1() const { return r_; }
    std::size_t size2() const { return c_; }
};
template <class T> class matrix {
    std::size_t r_, c_;
    std::vector<T> d_;
   public:
    typedef T value_type;
    matrix() : r_(0), c_(0) {}
    matrix(std::size_t r, std::size_t c) : r_(r), c_(c), d_(r * c, verif_poison<T>()) {}
    matrix &operator=(const zero_matrix<T> &z) { r_ = z.size1(); c_ = z.size2(); d_.assign(r_ * c_, T(0)); return *this; }
    std::size_t size1() const { return r_; }
    std::size_t size2() const { return c_; }
    T &operator()(std::size_t i, std::size_t j) {
        if (i >= r_ || j >= c_) throw std::out_of_range("ublas::matrix subscript");
        return d_[i * c_ + j];
    }
    const T &operator()(std::size_t i, std::size_t j) const {
        if (i >= r_ || j >= c_) throw std::out_of_range("ublas::matrix subscript");
        return d_[i * c_ + j];
    }
};
template <class T> class permutation_matrix {
    std::vector<T> p_;
   public:
    explicit permutation_matrix(std::size_t n) : p_(n) { for (std::size_t i = 0; i < n; i++) p_[i] = (T)i; }
    std::size_t size() const { return p_.size(); }
    T &operator()(std::size_t i) { return p_.at(i); }
    const T &operator()(std::size_t i) const { return p_.at(i); }
};
/* LU with partial pivoting (returns 0 on success, k+1 for a singular pivot) */
template <class M, class PM> std::size_t lu_factorize(M &A, PM &pm) {
    std::size_t n = A.size1(), singular = 0;
    for (std::size_t k = 0; k < n; k++) {
        std::size_t l = k;
        for (std::size_t i = k + 1; i < n; i++) if (std::fabs(A(i, k)) > std::fabs(A(l, k))) l = i;
        pm(k) = l;
        if (A(l, k) == 0.0) { if (!singular) singular = k + 1; continue; }
        if (l != k) for (std::size_t j = 0; j < n; j++) std::swap(A(l, j), A(k, j));
        for (std::size_t i = k + 1; i < n; i++) {
            A(i, k) /= A(k, k);
            for (std::size_t j = k + 1; j < n; j++) A(i, j) -= A(i, k) * A(k, j);
        }
    }
    return singular;
}
template <class M, class PM, class V> void lu_substitute(const M &A, const PM &pm, V &x) {
    std::size_t n = A.size1();
    for (std::size_t k = 0; k < n; k++) { std::size_t l = pm(k); if (l != k) std::swap(x[k], x[l]); }
    for (std::size_t i = 0; i < n; i++) for (std::size_t j = 0; j < i; j++) x[i] -= A(i, j) * x[j];
    for (std::size_t ii = n; ii-- > 0;) { for (std::size_t j = ii + 1; j < n; j++) x[ii] -= A(ii, j) * x[j]; x[ii] /= A(ii, ii); }
}
}}}
#endif
