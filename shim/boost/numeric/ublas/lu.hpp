#include "verif_ublas.hpp"
