#ifndef VERIF_SUNMATRIX_SPARSE_H
#define VERIF_SUNMATRIX_SPARSE_H
#include <sundials/sundials_matrix.h>
static inline SUNMatrix SUNSparseMatrix(sunindextype M, sunindextype N, sunindextype nnz_arg, int sparsetype, SUNContext ctx) {
    SUNMatrix A = (SUNMatrix)calloc(1, sizeof(*A));
    A->kind = VERIF_MAT_SPARSE; A->M = M; A->N = N; A->nnz_ = nnz_arg; A->sparsetype = sparsetype; A->sunctx = ctx;
    A->NP = (sparsetype == CSR_MAT) ? M : N;
    A->data = (realtype *)malloc(sizeof(realtype) * (size_t)nnz_arg + (nnz_arg ? 0 : 1));
    A->indexvals = (sunindextype *)malloc(sizeof(sunindextype) * (size_t)nnz_arg + (nnz_arg ? 0 : 1));
    A->indexptrs = (sunindextype *)malloc(sizeof(sunindextype) * (size_t)(A->NP + 1));
    SUNMatZero(A);
    return A;
}
static inline realtype *SUNSparseMatrix_Data(SUNMatrix A) { return A->data; }
static inline sunindextype *SUNSparseMatrix_IndexValues(SUNMatrix A) { return A->indexvals; }
static inline sunindextype *SUNSparseMatrix_IndexPointers(SUNMatrix A) { return A->indexptrs; }
static inline sunindextype SUNSparseMatrix_NNZ(SUNMatrix A) { return A->nnz_; }
#define SM_DATA_S(A) ((A)->data)
#define SM_INDEXVALS_S(A) ((A)->indexvals)
#define SM_INDEXPTRS_S(A) ((A)->indexptrs)
#endif
