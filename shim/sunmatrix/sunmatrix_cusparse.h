#ifndef VERIF_SUNMATRIX_CUSPARSE_H
#define VERIF_SUNMATRIX_CUSPARSE_H
#include <verif_cuda.h>
#include <sunmatrix/sunmatrix_sparse.h>
#include <map>
/* block CSR: nblocks blocks share one (M+1 row pointers, nnz column indices) pattern; data = nblocks * nnz values */
inline std::map<SUNMatrix, int> &verif_cusparse_blocks() { static std::map<SUNMatrix, int> m; return m; }
static inline SUNMatrix SUNMatrix_cuSparse_NewBlockCSR(int nblocks, int M, int N, int nnz, cusparseHandle_t, SUNContext ctx) {
    SUNMatrix A = SUNSparseMatrix(M, N, (sunindextype)nnz * nblocks, CSR_MAT, ctx);
    verif_cusparse_blocks()[A] = nblocks;
    return A;
}
static inline int SUNMatrix_cuSparse_NumBlocks(SUNMatrix A) { auto it = verif_cusparse_blocks().find(A); return it == verif_cusparse_blocks().end() ? 1 : it->second; }
static inline int SUNMatrix_cuSparse_BlockNNZ(SUNMatrix A) { return (int)(A->nnz_ / SUNMatrix_cuSparse_NumBlocks(A)); }
static inline int SUNMatrix_cuSparse_SetFixedPattern(SUNMatrix, int) { return 0; }
static inline int SUNMatrix_cuSparse_CopyToDevice(SUNMatrix A, realtype *h_data, int *h_idxptrs, int *h_idxvals) {
    int bnnz = SUNMatrix_cuSparse_BlockNNZ(A);
    if (h_data) memcpy(A->data, h_data, sizeof(realtype) * (size_t)A->nnz_);
    if (h_idxptrs) for (sunindextype i = 0; i < A->NP + 1; i++) A->indexptrs[i] = h_idxptrs[i];
    if (h_idxvals) for (int i = 0; i < bnnz; i++) A->indexvals[i] = h_idxvals[i];
    return 0;
}
static inline realtype *SUNMatrix_cuSparse_Data(SUNMatrix A) { return A->data; }
#endif
