#ifndef VERIF_SUNMATRIX_CUSPARSE_H
#define VERIF_SUNMATRIX_CUSPARSE_H
#include <verif_cuda.h>
#include <sunmatrix/sunmatrix_sparse.h>
static inline SUNMatrix SUNMatrix_cuSparse_NewBlockCSR(int nblocks, int M, int N, int nnz, cusparseHandle_t, SUNContext ctx) {
    SUNMatrix A = SUNSparseMatrix(M, N, (sunindextype)nnz * nblocks, CSR_MAT, ctx);
    return A;
}
static inline int SUNMatrix_cuSparse_SetFixedPattern(SUNMatrix, int) { return 0; }
static inline int SUNMatrix_cuSparse_CopyToDevice(SUNMatrix, realtype *, int *, int *) { return 0; }
static inline realtype *SUNMatrix_cuSparse_Data(SUNMatrix A) { return A->data; }
static inline int SUNMatrix_cuSparse_NumBlocks(SUNMatrix) { return 1; }
#endif
