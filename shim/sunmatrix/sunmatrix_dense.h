#ifndef VERIF_SUNMATRIX_DENSE_H
#define VERIF_SUNMATRIX_DENSE_H
#include <sundials/sundials_matrix.h>
static inline SUNMatrix SUNDenseMatrix(sunindextype M, sunindextype N, SUNContext ctx) {
    SUNMatrix A = (SUNMatrix)calloc(1, sizeof(*A));
    A->kind = VERIF_MAT_DENSE; A->M = M; A->N = N; A->sunctx = ctx;
    A->data = (realtype *)malloc(sizeof(realtype) * (size_t)(M * N) + (M * N ? 0 : 1));
    A->cols = (realtype **)malloc(sizeof(realtype *) * (size_t)N + (N ? 0 : 1));
    for (sunindextype j = 0; j < N; j++) A->cols[j] = A->data + j * M;
    for (sunindextype i = 0; i < M * N; i++) A->data[i] = 0.0;
    return A;
}
#define SM_ROWS_D(A) ((A)->M)
#define SM_COLUMNS_D(A) ((A)->N)
#define SM_DATA_D(A) ((A)->data)
#define SM_COLS_D(A) ((A)->cols)
#define SM_COLUMN_D(A, j) (((A)->cols)[j])
#define SM_ELEMENT_D(A, i, j) (((A)->cols)[j][i])
static inline realtype *SUNDenseMatrix_Data(SUNMatrix A) { return A->data; }
static inline sunindextype SUNDenseMatrix_Rows(SUNMatrix A) { return A->M; }
static inline sunindextype SUNDenseMatrix_Columns(SUNMatrix A) { return A->N; }
#endif
