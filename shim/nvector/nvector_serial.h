#ifndef VERIF_NVECTOR_SERIAL_H
#define VERIF_NVECTOR_SERIAL_H
#include <math.h>
#include <sundials/sundials_nvector.h>
static inline N_Vector N_VNewEmpty_Serial(sunindextype n, SUNContext ctx) {
    N_Vector v = (N_Vector)malloc(sizeof(*v));
    v->content = (struct _verif_NVectorContent *)malloc(sizeof(*v->content));
    v->content->length = n; v->content->own_data = 0; v->content->data = NULL; v->sunctx = ctx;
    return v;
}
static inline N_Vector N_VNew_Serial(sunindextype n, SUNContext ctx) {
    N_Vector v = N_VNewEmpty_Serial(n, ctx);
    v->content->data = (realtype *)malloc(sizeof(realtype) * (size_t)(n > 0 ? n : 0) + (n > 0 ? 0 : 1));
    for (sunindextype i = 0; i < n; i++) v->content->data[i] = NAN;   /* N_VNew_Serial does not initialise: poison */
    v->content->own_data = 1;
    return v;
}
static inline N_Vector N_VMake_Serial(sunindextype n, realtype *d, SUNContext ctx) {
    N_Vector v = N_VNewEmpty_Serial(n, ctx);
    v->content->data = d;
    return v;
}
#define NV_DATA_S(v) ((v)->content->data)
#define NV_LENGTH_S(v) ((v)->content->length)
#define NV_Ith_S(v, i) (NV_DATA_S(v)[i])
#endif
