#ifndef VERIF_NVECTOR_CUDA_H
#define VERIF_NVECTOR_CUDA_H
#include <verif_cuda.h>
#include <sundials/sundials_nvector.h>
#include <map>
/* device array = content->data (what N_VGetArrayPointer / the integrator sees), host array kept aside */
inline std::map<N_Vector, realtype *> &verif_cuda_host() { static std::map<N_Vector, realtype *> m; return m; }
static inline N_Vector N_VNew_Cuda(sunindextype n, SUNContext ctx) {
    N_Vector v = (N_Vector)malloc(sizeof(*v));
    v->content = (struct _verif_NVectorContent *)malloc(sizeof(*v->content));
    v->content->length = n; v->content->own_data = 1; v->sunctx = ctx; v->content->stream_exec_policy = NULL;
    v->content->data = (realtype *)calloc((size_t)(n > 0 ? n : 1), sizeof(realtype));
    verif_cuda_host()[v] = NULL;
    return v;
}
typedef struct _verif_NVectorContent *N_VectorContent_Cuda;
static inline int N_VSetKernelExecPolicy_Cuda(N_Vector v, SUNCudaExecPolicy *stream_policy, SUNCudaExecPolicy *) { v->content->stream_exec_policy = stream_policy; return 0; }
static inline void N_VSetHostArrayPointer_Cuda(realtype *h, N_Vector v) { verif_cuda_host()[v] = h; }
static inline realtype *N_VGetHostArrayPointer_Cuda(N_Vector v) { return verif_cuda_host()[v]; }
static inline realtype *N_VGetDeviceArrayPointer_Cuda(N_Vector v) { return v->content->data; }
static inline void N_VCopyToDevice_Cuda(N_Vector v) { memcpy(v->content->data, verif_cuda_host()[v], sizeof(realtype) * (size_t)v->content->length); }
static inline void N_VCopyFromDevice_Cuda(N_Vector v) { memcpy(verif_cuda_host()[v], v->content->data, sizeof(realtype) * (size_t)v->content->length); }
static inline void N_VSpace_Cuda(N_Vector v, sunindextype *lrw, sunindextype *liw) { *lrw = v->content->length; *liw = 1; }
#endif
