"""C10 - generated sources are self-contained: every symbol used is declared first.
Decided by g++ -fsyntax-only on every rendered translation unit against the API shim."""
from __future__ import annotations

import itertools
import re
import shutil
import tempfile
from pathlib import Path

from ..core.runner import HarnessError, VERIF
from ..ref import formats as F
from . import c05

LEVEL = "exploration"

FORMATS = ["kida", "umist", "krome", "leeds", "uclchem", "naunet"]
MODELS = ["", "hh93", "hh93i", "rr07", "rr07x"]
BACKENDS = ["dense", "sparse", "rosenbrock4"]  # the back-ends the property names; the cusparse branch below stays usable for replay experiments
SHIELDS = [{}, {"H2": "L96Table"}, {"CO": "V09Table"}, {"CO": "VB88Table"}, {"N2": "L13Table"}, {"H2": "L96Table", "CO": "V09Table", "N2": "L13Table"}]
THERMAL = [[], ["CIC_HI", "RC_HII"]]


def ar(r, p, a=1.0, b=0.0, c=0.0, lo=10, hi=41000, idx=1, code=None, marker=None):
    return F.AReaction(list(r), list(p), a, b, c, lo, hi, idx, code, marker)


def probe_lines(fmt, with_grain_species):
    """one reaction of every type a format can express -> [(line, tag)]"""
    L = []
    if fmt == "kida":
        for code, mk, r in [(1, "CR", ["H2"]), (2, "Photon", ["H2"]), (3, None, ["H", "H2"]), (4, None, ["H+", "H2"]), (5, None, ["H+", "H2"])]:
            L.append((F.enc_kida(ar(r, ["H", "H"] if len(r) == 1 else ["H2", "H"] if "H+" not in r else ["H2", "H+"], 1e-10, 0.5, 2.0, code=code, marker=mk, idx=len(L) + 1)), f"kida:{code}"))
    elif fmt == "umist":
        for code, mk, r in [("NN", None, ["H", "H2"]), ("PH", "PHOTON", ["H2"]), ("CP", "CRP", ["H2"]), ("CR", "CRPHOT", ["H2"])]:
            L.append((F.enc_umist(ar(r, ["H", "H"] if len(r) == 1 else ["H2", "H"], 1e-10, 0.5, 2.0, code=code, marker=mk, idx=len(L) + 1)), f"umist:{code}"))
    elif fmt == "krome":
        L += [
            ("@format:idx,R,R,R,P,P,P,P,Tmin,Tmax,rate", "krome:format"),
            ("@common: user_crate,user_Av", "krome:common"),
            ("@var: foo = Tgas*2.0", "krome:var"),
            ("1,H,H,,H2,,,,NONE,NONE,1.0d-10*(T32)**(-0.5)*exp(-3.0d1*invT)", "krome:rate"),
            ("2,H2,,,H,H,,,10,1d4,user_crate*2d0*foo/user_Av", "krome:uservar"),
            ("3,H,E,,H+,E,E,,NONE,NONE,exp(-32.7d0+13.5d0*lnTe)*sqrTgas*invTe*Te", "krome:derived"),
            ("4,H+,E,,H,,,,>5.5e3,NONE,3.92d-13*invTe**0.6353d0*n(idx_H)", "krome:nidx"),
            # a user parameter that only occurs inside a derived variable, and a variable built on another variable
            ("@common: user_fs", "krome:common-in-var"),
            ("@var: fshield = exp(-2.5*user_fs)", "krome:var-uses-common"),
            ("@var: fshield2 = fshield*foo", "krome:var-uses-var"),
            ("5,H2,,,H,H,,,NONE,NONE,2.0d-10*fshield2", "krome:rate-uses-var-chain"),
        ]
    elif fmt == "krome-late":
        # directives after the first reaction line, a second @common further down
        L += [
            ("@format:idx,R,R,R,P,P,P,P,Tmin,Tmax,rate", "krome:format"),
            ("1,H,H,,H2,,,,NONE,NONE,1.0d-10*(T32)**(-0.5)", "krome:rate"),
            ("@common: user_crate", "krome:common-late"),
            ("@var: kfac = Tgas*2.0", "krome:var-late"),
            ("2,H2,,,H,H,,,10,1d4,user_crate*kfac", "krome:uservar"),
            ("@common: user_Av", "krome:common-late2"),
            ("3,H,E,,H+,E,E,,NONE,NONE,user_Av*2d0/kfac", "krome:uservar2"),
        ]
    elif fmt == "leeds":
        def ln(idx, r, p, code, a=1.0, b=0.0, c=100.0):
            return c05.encode("leeds", code, None, r, p, a, b, c, idx, 5, 41000)
        L += [
            (ln(1, ["H", "H2"], ["H2", "H"], 1), "leeds:1"),
            (ln(2, ["H2", "CRP"], ["H", "H"], 2), "leeds:2"),
            (ln(3, ["H2", "CRPHOT"], ["H", "H"], 3), "leeds:3"),
            (ln(4, ["H2O", "PHOTON"], ["OH", "H"], 4), "leeds:4"),
            (ln(5, ["CO", "PHOTON"], ["C", "O"], 4), "leeds:4:CO"),
            (ln(6, ["H2", "PHOTON"], ["H", "H"], 4), "leeds:4:H2"),
            (ln(7, ["N2", "PHOTON"], ["N", "N"], 4), "leeds:4:N2"),
            (ln(8, ["O", "XRAY"], ["O+", "e-"], 5), "leeds:5"),
            (ln(9, ["CO"], ["GCO"], 7), "leeds:7"),
            (ln(10, ["GCO"], ["CO"], 8, c=1150.0), "leeds:8"),
            (ln(11, ["GCO"], ["CO"], 9, c=1150.0), "leeds:9"),
            (ln(12, ["GCO"], ["CO"], 10, c=1150.0), "leeds:10"),
            (ln(13, ["GH2O", "CRPHOT"], ["GOH", "GH"], 11), "leeds:11"),
            (ln(14, ["GH2O", "PHOTON"], ["GOH", "GH"], 12), "leeds:12"),
            (ln(15, ["GCO", "PHOTON"], ["GC", "GO"], 12), "leeds:12:CO"),
            (ln(16, ["GH", "GH"], ["GH2"], 13, a=0.0), "leeds:13:HH"),
            (ln(17, ["GH", "GCO"], ["GHCO"], 13, a=1000.0), "leeds:13:H-"),
            (ln(18, ["GCO", "GO"], ["GCO2"], 13, a=1000.0), "leeds:13:--"),
            (ln(19, ["GH", "GO"], ["OH"], 14, a=0.0), "leeds:14"),
            (ln(20, ["OH", "H", "M"], ["H2O", "M"], 15), "leeds:15"),
        ]
        if with_grain_species:
            L += [
                (ln(21, ["H+", "GRAIN-"], ["H", "GRAIN0"], 6), "leeds:6"),
                (ln(22, ["e-", "GRAIN0"], ["GRAIN-"], 20), "leeds:20"),
            ]
    elif fmt == "uclchem":
        def u(r, p, mk=None, a=1.0, b=0.0, c=0.0):
            return F.enc_uclchem(ar(r, p, a, b, c, 10, 41000, marker=mk))
        L += [
            (u(["H", "H2"], ["H2", "H"], a=1e-10, b=0.5, c=10.0), "ucl:MA"),
            (u(["H2"], ["H", "H"], "CRP"), "ucl:CRP"),
            (u(["H2O"], ["OH", "H"], "PHOTON", c=1.7), "ucl:PHOTON"),
            (u(["CO"], ["C", "O"], "PHOTON", c=2.5), "ucl:PHOTON:CO"),
            (u(["H2"], ["H", "H"], "CRPHOT", c=100.0), "ucl:CRPHOT"),
            (u(["CO"], ["#CO"], "FREEZE"), "ucl:FREEZE"),
            (u(["HCO+"], ["#CO", "H"], "FREEZE", b=1.0), "ucl:FREEZE:ion"),
            (u(["E-"], ["NAN"] if False else [], "FREEZE"), "ucl:FREEZE:electron"),
            (u(["#CO"], ["CO"], "THERM"), "ucl:THERM"),
            (u(["#CO"], ["CO"], "DESCR"), "ucl:DESCR"),
            (u(["#CO"], ["CO"], "DEUVCR"), "ucl:DEUVCR"),
            (u(["#CO"], ["CO"], "DESOH2"), "ucl:DESOH2"),
        ]
    elif fmt == "naunet-g1":
        base = probe_lines("naunet", with_grain_species)
        out = []
        for ln, tag in base:
            out.append((ln.replace("        #", "      #1").replace("GRAIN0", "GRAIN1").replace(" GRAIN-", "GRAIN1-"), tag + ":g1"))
        return out
    elif fmt == "naunet":
        def n(r, p, code, mk=None, a=1.0, b=0.0, c=10.0):
            return F.enc_naunet(ar(r, p, a, b, c, 10, 41000, 1, code, mk))
        L += [
            (n(["H", "H2"], ["H2", "H"], 100), "nau:100"),
            (n(["H2"], ["H", "H"], 101, "CR"), "nau:101"),
            (n(["H2"], ["H", "H"], 102, "PHOTON"), "nau:102"),
            (n(["H+", "H2"], ["H2", "H+"], 110), "nau:110"),
            (n(["H+", "H2"], ["H2", "H+"], 111), "nau:111"),
            (n(["H2"], ["H", "H"], 120, "CRPHOT"), "nau:120"),
            (n(["CO"], ["#CO"], 200), "nau:200"),
            (n(["#CO"], ["CO"], 201), "nau:201"),
            (n(["#HCO+"], ["HCO+"], 201), "nau:201:ion"),  # a charged ice species (binding energy from the user table)
            (n(["#CO"], ["CO"], 202), "nau:202"),
            (n(["#CO"], ["CO"], 203), "nau:203"),
            (n(["#H", "#O"], ["OH"], 204, a=0.0), "nau:204"),
            (n(["#CO"], ["CO"], 210), "nau:210"),
            (n(["#H", "#CO"], ["#HCO"], 300, a=1000.0), "nau:300"),
        ]
        if with_grain_species:
            L += [(n(["H+", "GRAIN-"], ["H", "GRAIN0"], 220), "nau:220"), (n(["e-", "GRAIN0"], ["GRAIN-"], 221), "nau:221")]
    return L


def configs(tier):
    fsets = [(f,) for f in FORMATS] + [("naunet-g1",), ("krome-late",), ("krome-late", "kida")]
    if tier != "quick":
        fsets += list(itertools.combinations(FORMATS, 2))
    out = []
    i = 0
    if tier == "quick":
        for fs in fsets:
            for m in MODELS:
                for b in BACKENDS:
                    out.append({"formats": list(fs), "model": m, "backend": b, "shielding": SHIELDS[i % len(SHIELDS)], "cooling": THERMAL[(i // 2) % 2], "grainspec": bool(i % 2)})
                    i += 1
    else:
        for fs in fsets:
            for m in MODELS:
                for b in BACKENDS:
                    for sh in SHIELDS:
                        for th in THERMAL:
                            out.append({"formats": list(fs), "model": m, "backend": b, "shielding": sh, "cooling": th, "grainspec": bool(i % 2)})
                            i += 1
    for i_, c_ in enumerate(out):
        # (the one shielding table that calls into the utilities unit is always linked)
        c_["link"] = (tier != "quick") or i_ % 2 == 0 or c_["shielding"].get("CO") == "VB88Table"
    # single-line probes: a symbol must be declared because the reaction that uses it is there, not because some
    # other reaction type of the same file happens to register it.  Every data line alone; lines with ice or grain
    # species under every dust model, gas-phase lines without one
    single_backends = ["dense"] if tier == "quick" else BACKENDS
    for f in ("kida", "umist", "leeds", "uclchem", "naunet"):
        for ln, tag in probe_lines(f, True):
            if ln.startswith("@"):
                continue
            surf = any(x in ln for x in ("#", "GRAIN")) or (f == "leeds" and re.search(r"\bG[A-Z]", ln) is not None) or tag in ("ucl:FREEZE", "ucl:FREEZE:ion", "ucl:FREEZE:electron", "nau:200", "leeds:7")
            for m in (MODELS[1:] if surf else [""]):
                for b in single_backends:
                    out.append({"formats": [f], "model": m, "backend": b, "shielding": {}, "cooling": [], "grainspec": True, "only": tag})
    # ODE modifiers may be written in the derived quantities of the dust model (the bundled ism example does): those
    # must be declared wherever the modifier is emitted (right-hand side and Jacobian of every back-end)
    for m in MODELS[1:]:
        for b in BACKENDS:
            for f in (("naunet",), ("leeds",), ("uclchem",)):
                out.append({"formats": list(f), "model": m, "backend": b, "shielding": {}, "cooling": [], "grainspec": False, "link": False,
                            "odemod": {"H": {"factors": ["-garea*mant"], "reactants": [["H"]]}, "H2": {"factors": ["0.5*garea"], "reactants": [["H", "H"]]}}})
    # networks without atomic hydrogen, every back-end, with and without the thermal equation
    for b in BACKENDS:
        for th in ([], ["CIC_HeI"]):
            out.append({"formats": ["kida"], "model": "", "backend": b, "shielding": {}, "cooling": th, "grainspec": False, "noH": True})
    return out


NAME_DIAG = re.compile(r"(was not declared in this scope|has not been declared|redeclaration of|redefinition of|conflicting declaration|previous declaration|previously declared|previously defined|is not a member of|has no member named)")
SHIM_NAME = re.compile(r"^(pybind11|py::|PYBIND|SUN|N_V|CV|SM_|sun|boost|std|ublas|integrate_|make_|rosenbrock|realtype|booleantype|cuda|cusparse|cusolver|VERIF_|verif_|blockIdx|blockDim|threadIdx|gridDim)")


def build_network(cfg):
    from ..harness.render import quiet
    from naunet.network import Network
    from naunet.network import _reaction_factory, supported_reaction_class

    from naunet import chemistrydata

    chemistrydata.user_binding_energy["#HCO+"] = 1150.0  # what `binding_energy` of the configuration file installs
    kw = dict(grain_model=cfg["model"], shielding=dict(cfg["shielding"]), cooling=list(cfg["cooling"]))
    if cfg.get("odemod"):
        kw["ode_modifier"] = {k_: {"factors": list(v_["factors"]), "reactants": [list(x) for x in v_["reactants"]]} for k_, v_ in cfg["odemod"].items()}
    req = ["H", "H2", "CO", "N2", "C", "N", "O"]  # every element of the probe species also as an atom (renormalisation has a row for it)
    if cfg["cooling"]:
        req += ["e-", "H+"]
    kw["required_species"] = req
    lines = []
    for fmt in cfg["formats"]:
        for ln, tag in probe_lines(fmt, cfg["grainspec"]):
            lines.append((ln, fmt, tag))
    if cfg.get("noH"):
        # a network without atomic hydrogen (no IDX_ELEM_H: the renormalisation members of Naunet are compiled out)
        kw["required_species"] = ["He"] + (["e-", "He+"] if cfg["cooling"] else [])
        if cfg["cooling"]:
            kw["cooling"] = ["CIC_HeI"]
        lines = [(F.enc_kida(ar(["He"], ["He+", "e-"], 0.5, 0.0, 0.0, code=1, marker="CR", idx=1)), "kida", "kida:noH")]
    if cfg.get("only"):
        # single-line probe: the directives of the file and exactly one data line
        lines = [t for t in lines if t[0].startswith("@") or t[2] == cfg["only"]]
    refused = []
    kept = list(lines)
    for attempt in range(4):
        with quiet():
            net = Network(**kw)
            last = None
            for fmt in cfg["formats"]:
                rf = "naunet" if fmt == "naunet-g1" else "krome" if fmt == "krome-late" else fmt
                cls = supported_reaction_class[rf]
                cls.initialize()
                for ln, f, tag in kept:
                    if f != fmt:
                        continue
                    net._add_reaction((ln, rf))
                cls.finalize()
        # which reactions does the (format, model) combination refuse?
        try:
            grains = {g.group: g for g in net.grains} if net.grains else {}
        except Exception as e:
            return None, refused, f"grains: {e!r}"
        bad = []
        data = [t for t in kept if not t[0].startswith("@")]
        if len(data) != len(net.reaction_list):
            raise HarnessError(f"probe network: {len(data)} data lines vs {len(net.reaction_list)} reactions")
        for (ln, f, tag), r in zip(data, net.reaction_list):
            try:
                r.rateexpr(grains.get(r.grain_group))
            except Exception as e:
                bad.append((ln, f, tag))
                refused.append((tag, type(e).__name__))
        if not bad:
            return net, refused, None
        kept = [t for t in kept if t not in bad]
    return net, refused, None


def cxx_standard(files):
    """-std flag the generated build prescribes (top-level CMakeLists.txt: CMAKE_CXX_STANDARD, CMAKE_CXX_EXTENSIONS)"""
    txt = files.get("CMakeLists.txt", "")
    m = re.search(r"set\(\s*CMAKE_CXX_STANDARD\s+(\d+)\s*\)", txt)
    if not m:
        raise HarnessError("generated CMakeLists.txt sets no CMAKE_CXX_STANDARD")
    ext = re.search(r"set\(\s*CMAKE_CXX_EXTENSIONS\s+(\w+)\s*\)", txt)
    gnu = not (ext and ext.group(1).upper() in ("OFF", "FALSE", "0", "NO"))
    return f"-std={'gnu' if gnu else 'c'}++{m.group(1)}"


def cmake_list(text, name, lists):
    """the value of one list variable after the set()/list(APPEND) commands of a generated CMakeLists.txt, with
    if(NOT "X" IN_LIST var) / if("X" IN_LIST var) blocks evaluated against `lists`; other commands are skipped"""
    txt = re.sub(r"#[^\n]*", "", text)
    val = {}
    stack = []
    for m in re.finditer(r"(\w+)\s*\(([^()]*)\)", txt):
        cmd, args = m.group(1).lower(), m.group(2).split()
        if cmd == "if":
            mm = re.fullmatch(r'(NOT\s+)?"?(\w+)"?\s+IN_LIST\s+(\w+)', " ".join(args))
            if mm:
                inl = mm.group(2) in lists.get(mm.group(3), val.get(mm.group(3), []))
                stack.append(inl != bool(mm.group(1)))
            else:
                stack.append(None)  # a condition this reader does not evaluate (MAKE_SHARED ...): commands inside are ignored
        elif cmd == "else" and stack:
            stack[-1] = None if stack[-1] is None else not stack[-1]
        elif cmd == "endif" and stack:
            stack.pop()
        elif all(x is True for x in stack):
            if cmd == "set" and args:
                val[args[0]] = args[1:]
            elif cmd == "list" and len(args) >= 2 and args[0] == "APPEND":
                val.setdefault(args[1], []).extend(args[2:])
    if name not in val:
        raise HarnessError(f"CMakeLists.txt: no list {name}")
    return val[name]


def run_cfg(cfg):
    from ..harness.render import render, reset_globals, scratch, quiet
    from ..harness.cxx import GXX, SHIM, run as runcmd

    reset_globals()
    viols = []
    label = ("ode-modifier in dust-model deriveds|" if cfg.get("odemod") else "") + ("no-H|" if cfg.get("noH") else "") + (f"only {cfg['only']}|" if cfg.get("only") else "") + f"{'+'.join(cfg['formats'])}|{cfg['model'] or 'none'}|{cfg['backend']}|sh={','.join(sorted(cfg['shielding'])) or '-'}|th={'on' if cfg['cooling'] else 'off'}|gs={int(cfg['grainspec'])}"
    try:
        net, refused, err = build_network(cfg)
    except HarnessError:
        raise
    except Exception as e:
        return label, 0, [(f"C10:build-error:{'+'.join(cfg['formats'])}:{cfg['model']}:{type(e).__name__}", f"{label}: probe network raised {e!r}", cfg)], [], 0
    if net is None:
        return label, 0, [(f"C10:grain-error:{cfg['model']}", f"{label}: {err}", cfg)], refused, 0
    d = Path(tempfile.mkdtemp(dir=scratch()))
    nfiles = 0
    other = 0
    others = []
    try:
        try:
            files = render(net, cfg["backend"], None)
        except Exception as e:
            return label, 0, [(f"C10:render-error:{'+'.join(cfg['formats'])}:{cfg['model']}:{type(e).__name__}", f"{label}: render raised {e!r}", cfg)], refused, 0
        for rel, text in files.items():
            p = d / rel
            p.parent.mkdir(parents=True, exist_ok=True)
            p.write_text(text)
        cuda = []
        if cfg["backend"] == "cusparse":
            # the CUDA sources are checked as host C++: qualifiers defined away, kernel launches rewritten to a call
            cuda = ["-D__host__=", "-D__device__=", "-D__constant__=", "-D__global__="]
            for rel in sorted(files):
                if rel.startswith("src/") and rel.endswith(".cu"):
                    txt = re.sub(r"\b(\w+)\s*<<<\s*([^,>]+),\s*([^,>]+)(?:,[^>]*)?>>>\s*\(", r"VERIF_LAUNCH(\1, \2, \3)(", files[rel])
                    new_rel = rel[:-3] + "_cu.cpp"
                    (d / new_rel).write_text("#include <algorithm>\nusing std::min; using std::max;\n" + txt)
                    files[new_rel] = txt
        units = [(rel, []) for rel in sorted(files) if rel.startswith("src/") and rel.endswith(".cpp")]
        # the python-module build (-DPYMODULE) of the driver: the pybind11 block names members of Naunet / NaunetData
        units += [(rel, ["-DPYMODULE", "-DPYMODNAME=pymod"]) for rel, _ in list(units) if rel.endswith("src/naunet.cpp")]
        # the Debug build of the generated project (CMAKE_BUILD_TYPE=Debug adds -DNAUNET_DEBUG): the same units again
        if cfg.get("link") and not cfg.get("only"):
            units += [(rel, ["-DNAUNET_DEBUG"]) for rel, defs_ in list(units) if not defs_]
        std = cxx_standard(files) if cfg["backend"] != "cusparse" else "-std=c++17"  # the language level the generated build prescribes
        for rel, defs in units:
            nfiles += 1
            rc, so, se = runcmd([GXX, std, "-fsyntax-only", "-w", "-fmax-errors=0", "-fdiagnostics-plain-output", *cuda, *defs, "-I", str(SHIM), "-I", "include", rel], cwd=str(d), timeout=300)
            if rc == 0:
                continue
            seen = set()
            for line in se.splitlines():
                if " error: " not in line:
                    continue
                msg = line.split(" error: ", 1)[1]
                if NAME_DIAG.search(msg):
                    m = re.search(r"[‘'`]([^’']+)[’']", msg)
                    ident = m.group(1) if m else "?"
                    ident = re.sub(r"^(const |double |int |realtype )+", "", ident)
                    if SHIM_NAME.match(ident):
                        raise HarnessError(f"shim gap: {msg} ({label}, {rel})")
                    kind = "undeclared" if ("not declared" in msg or "not been declared" in msg or "no member" in msg or "not a member" in msg) else "redeclared"
                    key = (kind, ident)
                    if key in seen:
                        continue
                    seen.add(key)
                    owner = cfg["model"] or "none"
                    ctxt = "leeds" if "leeds" in cfg["formats"] else "no-leeds"
                    if "naunet-g1" in cfg["formats"]:
                        ctxt = "group1"
                    viols.append((f"C10:{kind}:{ident}:{owner}:{ctxt}", f"{label}: {rel}: {msg}", cfg))
                else:
                    other += 1
                    others.append(f"{rel}: {re.sub(r'[0-9]+', 'N', msg)[:120]}")
        # closed program: everything the translation units reference is defined exactly once somewhere among them
        if cfg.get("link") and not viols and not others and cfg["backend"] != "cusparse":
            (d / "verif_main.cpp").write_text("int main() { return 0; }\n")
            extra = [str(VERIF / "cxx" / "stub_cvode.cpp")] if cfg["backend"] != "rosenbrock4" else []
            # the program is what the generated build description puts together: the object targets src/CMakeLists.txt
            # lists (for a build without CUDA) plus the driver, not whatever happens to lie in src/
            if "src/CMakeLists.txt" not in files:
                raise HarnessError(f"no src/CMakeLists.txt rendered ({label})")
            targets = cmake_list(files["src/CMakeLists.txt"], "OBJTARGETS", {"languages": ["C", "CXX"]})
            srcs = []
            for t_ in targets + ["naunet"]:
                if f"src/{t_}.cpp" not in files:
                    viols.append((f"C10:build-lists-missing-source:{t_}", f"{label}: src/CMakeLists.txt lists the object target {t_} but no src/{t_}.cpp is generated", cfg))
                else:
                    srcs.append(f"src/{t_}.cpp")
            rc, so, se = runcmd([GXX, std, "-w", "-O0", "-I", str(SHIM), "-I", "include", *srcs, *extra, "verif_main.cpp", "-o", "linked"], cwd=str(d), timeout=600)
            nfiles += 1
            if rc != 0:
                seen = set()
                for line in se.splitlines():
                    m = re.search(r"(undefined reference to|multiple definition of) [`'‘]([^'’]+)['’]", line)
                    if not m:
                        continue
                    ident = re.sub(r"\(.*$", "", m.group(2))
                    kind = "undefined" if m.group(1).startswith("undefined") else "defined-twice"
                    if SHIM_NAME.match(ident.split("::")[-1]) or ident.startswith(("CVode", "verif_")):
                        raise HarnessError(f"shim gap at link time: {line} ({label})")
                    if (kind, ident) in seen:
                        continue
                    seen.add((kind, ident))
                    owner = cfg["model"] or "none"
                    viols.append((f"C10:{kind}:{ident}:{owner}:link", f"{label}: linking the rendered translation units: {line.strip()[-200:]}", cfg))
                if not seen:
                    raise HarnessError(f"link step failed without a symbol diagnostic ({label}): {se[-400:]}")
        return label, nfiles, viols, refused, others
    finally:
        shutil.rmtree(d, ignore_errors=True)


def run_test_programs(arg):
    """the example programs the generator writes next to the library (tests/*.cpp, built by default by the generated
    CMake project; a Debug build adds -DNAUNET_DEBUG) are generated sources too: with the rendered headers each of
    them must compile without diagnostics about undeclared names, in both build types"""
    backend, cooling = arg
    from ..harness.cxx import GXX, SHIM, run as runcmd
    from ..harness.render import BACKENDS, render, reset_globals, quiet, scratch, template_loader

    reset_globals()
    from . import odecommon as oc

    viols = []
    n = 0
    d = Path(tempfile.mkdtemp(dir=scratch()))
    try:
        with quiet():
            net = oc.build_network({"reactions": [[["H", "H"], ["H2"]], [["H", "e-"], ["H+", "e-", "e-"]], [["H+", "e-"], ["H"]]], "cooling": list(cooling)})
            files = render(net, backend, None)
            template_loader(*BACKENDS[backend]).render_tests(path=d)
        for rel, text in files.items():
            p_ = d / rel
            p_.parent.mkdir(parents=True, exist_ok=True)
            p_.write_text(text)
        # the programs the generated tests/CMakeLists.txt builds (without CUDA); the other files of tests/ are
        # skeletons whose blocks the bundled examples fill in (serialdata.cpp uses an `nsystem` its empty block omits)
        targets = cmake_list((d / "tests" / "CMakeLists.txt").read_text(), "TESTTARGETS", {"languages": ["C", "CXX"]})
        progs = [f"tests/{t_}.cpp" for t_ in targets]
        if not progs:
            raise HarnessError("tests/CMakeLists.txt lists no test target")
        for rel in list(progs):
            if not (d / rel).exists():
                viols.append((f"C10:build-lists-missing-source:{rel}", f"{backend}: tests/CMakeLists.txt builds {rel}, which is not generated", {"test_programs": backend, "cooling": list(cooling)}))
                progs.remove(rel)
        for rel in progs:
            for defs in ([], ["-DNAUNET_DEBUG"]):
                n += 1
                rc, so, se = runcmd([GXX, cxx_standard(files), "-fsyntax-only", "-w", "-fmax-errors=0", "-fdiagnostics-plain-output", *defs, "-I", str(SHIM), "-I", "include", rel], cwd=str(d), timeout=300)
                if rc == 0:
                    continue
                seen = set()
                for line in se.splitlines():
                    if " error: " not in line:
                        continue
                    msg = line.split(" error: ", 1)[1]
                    if not NAME_DIAG.search(msg):
                        continue
                    m = re.search(r"[‘'`]([^’']+)[’']", msg)
                    ident = m.group(1) if m else "?"
                    if SHIM_NAME.match(ident):
                        raise HarnessError(f"shim gap: {msg} ({backend}, {rel})")
                    if ident in seen:
                        continue
                    seen.add(ident)
                    viols.append((f"C10:test-program:{Path(rel).stem}:{'debug' if defs else 'release'}:{ident}", f"{backend}: {rel} {' '.join(defs)}: {msg}", {"test_programs": backend, "cooling": list(cooling)}))
        return n, viols
    finally:
        shutil.rmtree(d, ignore_errors=True)


def run(ctx):
    cfgs = configs(ctx.tier)
    nfiles = nother = 0
    refused_all = {}
    other_kinds = {}
    for label, nf, viols, refused, other in ctx.pmap(run_cfg, cfgs):
        nfiles += nf
        if isinstance(other, list):
            for o in other:
                other_kinds[o] = other_kinds.get(o, 0) + 1
            other = len(other)
        nother += other
        for tag, exn in refused:
            refused_all[f"{tag}:{exn}"] = refused_all.get(f"{tag}:{exn}", 0) + 1
        ctx.absorb(viols)
    for n_, viols in ctx.pmap(run_test_programs, [(b, th) for b in BACKENDS for th in ([], ["CIC_HI"])]):
        nfiles += n_
        ctx.absorb(viols)
    ctx.assumptions += [
        "the generated example programs tests/*.cpp are compiled (-fsyntax-only) against the rendered headers of every back-end, with and without -DNAUNET_DEBUG (what the generated CMake project adds for a Debug build)",
        "the linked configurations are also compiled with -DNAUNET_DEBUG (what the generated CMake project adds for a Debug build)",
        "every unit is compiled at the language level the generated top-level CMakeLists.txt prescribes (CMAKE_CXX_STANDARD / CMAKE_CXX_EXTENSIONS -> -std=c++14 on this tree)",
        "the SUNDIALS/Boost API is a hand-written shim (no SUNDIALS/Boost in the image); a diagnostic naming a shim/libc identifier is a harness error, never a violation",
        "for the full probe networks (quick: every second configuration) the translation units are also compiled and linked with an empty main and trivial CVODE entry points: an undefined or doubly defined symbol of the generated code is a violation (closed program)",
        "only diagnostics about undeclared / redeclared / redefined names are judged here; other compiler errors are counted (other_diagnostics) and belong to C05/C16",
        "the pybind11 block of naunet.h / naunet.cpp is type-checked with -DPYMODULE against a stand-in for pybind11 (every &Class::member named in a .def must exist); the cuSPARSE sources are checked as host C++ (CUDA qualifiers defined away, kernel launches rewritten to a launcher call, CUDA/cuSPARSE API names from the shim)",
        "combinations the generator refuses in Python (reaction type not implemented by the grain model) are recorded as refused and left out of the probe network",
    ]
    return {
        "evaluations": nfiles,
        "distinct_nontrivial": len(cfgs),
        "rule": "configuration space format-set x grain model x back-end x shielding tables x thermal (quick: single formats, shielding/thermal/grain-species rotated by index; thorough: + all 15 two-format mixtures, full cross); each configuration renders a probe network holding one reaction of every type the combination can produce; in addition every data line of every probe file alone (ice/grain lines under each dust model); every src/*.cpp is passed to g++ -fsyntax-only",
        "samples": cfgs[:: max(1, len(cfgs) // 5)][:6],
        "configurations": len(cfgs),
        "translation_units_compiled": nfiles,
        "refused_in_python": refused_all,
        "other_diagnostics": nother,
        "other_diagnostic_kinds": dict(sorted(other_kinds.items(), key=lambda kv: -kv[1])[:25]),
        "exhaustive": True,
    }


def replay(ctx, case):
    if "test_programs" in case:
        ctx.absorb(run_test_programs((case["test_programs"], case.get("cooling", [])))[1])
        return
    label, nf, viols, refused, other = run_cfg(case)
    ctx.absorb(viols)
