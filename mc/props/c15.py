"""C15 - duplicate detection reports exactly the repeated reactions."""
from __future__ import annotations

import itertools

from ..core.runner import HarnessError

LEVEL = "exploration"

# id -> (reactants, products, window, type name)
POOL = {
    "A0": (["H", "H", "e-"], ["H2", "e-"], (-1.0, -1.0), "GAS_TWOBODY"),
    "A1": (["e-", "H", "H"], ["H2", "e-"], (-1.0, -1.0), "GAS_TWOBODY"),  # reactants permuted
    "A2": (["H", "H", "e-"], ["e-", "H2"], (-1.0, -1.0), "GAS_TWOBODY"),  # products permuted
    "A3": (["H", "H", "e-"], ["H2", "e-"], (10.0, 300.0), "GAS_TWOBODY"),  # other window
    "A6": (["H", "H", "e-"], ["H2", "e-"], (10.0, 1000.0), "GAS_TWOBODY"),  # same lower bound as A3, other upper bound
    "A7": (["H", "H", "e-"], ["H2", "e-"], (5.0, 300.0), "GAS_TWOBODY"),  # same upper bound as A3, other lower bound
    "A4": (["H", "H", "e-"], ["H2", "e-"], (-1.0, -1.0), "GAS_PHOTON"),  # other type
    "A5": (["H", "e-", "H"], ["H2", "e-"], (-1.0, -1.0), "UNKNOWN"),  # type unknown (wildcard in default mode)
    # same species *sets* as each other, different multiplicities: never equivalent
    "M1": (["H2"], ["H", "H"], (-1.0, -1.0), "GAS_TWOBODY"),
    "M2": (["H2", "H2"], ["H", "H", "H", "H"], (-1.0, -1.0), "GAS_TWOBODY"),
    "B0": (["C", "H"], ["CH"], (-1.0, -1.0), "GAS_TWOBODY"),
    "B1": (["H", "C"], ["CH"], (-1.0, -1.0), "GAS_TWOBODY"),
}
# second pool: permutations around the electron (two spellings) and lower-case-labelled species, where the
# canonical ordering used by hash/format must not depend on the order the species were given in
POOL.update(
    {
        "E0": (["H+", "E"], ["H"], (-1.0, -1.0), "GAS_TWOBODY"),
        "E1": (["E", "H+"], ["H"], (-1.0, -1.0), "GAS_TWOBODY"),
        "O0": (["oH2+", "e-"], ["oH2", "H"], (-1.0, -1.0), "GAS_TWOBODY"),
        "O1": (["e-", "oH2+"], ["H", "oH2"], (-1.0, -1.0), "GAS_TWOBODY"),
        "S0": (["He+", "E"], ["He"], (-1.0, -1.0), "GAS_TWOBODY"),
        "S1": (["E", "He+"], ["He"], (-1.0, -1.0), "GAS_TWOBODY"),
        # the same reaction as E0 with the electron in its other spelling: one species, two names.  Equal for the
        # species-based modes (default, brief); the string modes compare names (documented caveat) and keep them apart
        "E2": (["H+", "e-"], ["H"], (-1.0, -1.0), "GAS_TWOBODY"),
        # A3 with its bounds given as Python ints (as the API allows): the same window, the same reaction in every mode
        "A8": (["H", "H", "e-"], ["H2", "e-"], (10, 300), "GAS_TWOBODY"),
    }
)
# third pool: reactions with nothing on one side (freeze-out of the electron, loss and source terms)
POOL.update(
    {
        "F0": (["e-"], [], (-1.0, -1.0), "GAS_TWOBODY"),
        "F1": (["H"], [], (-1.0, -1.0), "GAS_TWOBODY"),
        "F2": ([], ["H"], (-1.0, -1.0), "GAS_TWOBODY"),
        "F3": (["e-"], [], (10.0, 300.0), "GAS_TWOBODY"),
    }
)
# ... and sides of equal LENGTH and equal members that differ only in how often each member occurs
POOL.update(
    {
        "A9": (["H", "H", "e-"], ["H2", "e-"], (10.0, -1.0), "GAS_TWOBODY"),  # A3 / A6 without an upper bound
        "N2": (["H", "e-", "e-"], ["H2", "e-"], (-1.0, -1.0), "GAS_TWOBODY"),  # A0 with the reactant multiplicities swapped
        "N3": (["H", "H", "e-"], ["H2", "H2", "e-"], (-1.0, -1.0), "GAS_TWOBODY"),
        "N4": (["H", "H", "e-"], ["H2", "e-", "e-"], (-1.0, -1.0), "GAS_TWOBODY"),  # N3 with the product multiplicities swapped
    }
)
IDS3 = ["F0", "F1", "F2", "F3", "B0", "B1", "A0", "N2", "N3", "N4", "A9", "A3", "A6"]
# fourth pool: the same reaction held as instances of different format classes (what merging two databases gives);
# the reaction is the same whatever file format it was read from
POOL.update(
    {
        "Y0": (["C", "CH"], ["C2", "H"], (10.0, 300.0), "GAS_TWOBODY"),
        "YK": (["C", "CH"], ["C2", "H"], (10.0, 300.0), "KIDA_MA"),
        "YU": (["CH", "C"], ["H", "C2"], (10.0, 300.0), "UMIST_TWOBODY"),
        "YC": (["C", "CH"], ["C2", "H"], (10.0, 300.0), "UCLCHEM_MA"),
        "ZK": (["C2", "H"], ["C", "CH"], (10.0, 300.0), "KIDA_MA"),
        "ZU": (["C2", "H"], ["C", "CH"], (10.0, 300.0), "UMIST_TWOBODY"),
    }
)
# ... and an ice reaction read from a Leeds file (surface prefix G) next to the same reaction in the default spelling
POOL.update(
    {
        "W0": (["CO"], ["#CO"], (10.0, 300.0), "GRAIN_FREEZE"),
        "WL": (["CO"], ["GCO"], (10.0, 300.0), "LEEDS_FREEZE"),
    }
)
FORMAT_OF = {"YK": "kida", "YU": "umist", "YC": "uclchem", "ZK": "kida", "ZU": "umist", "WL": "leeds"}
IDS4 = ["Y0", "YK", "YU", "YC", "ZK", "ZU", "W0", "WL"]
IDS2 = ["E0", "E1", "E2", "O0", "O1", "S0", "S1", "A0", "A3", "A7", "A8"]
# fifth pool: windows that differ by a fraction of a kelvin only (legal floats in every format)
POOL.update(
    {
        "Q1": (["H", "H", "e-"], ["H2", "e-"], (10.5, 300.0), "GAS_TWOBODY"),
        "Q2": (["H", "H", "e-"], ["H2", "e-"], (10.0, 299.5), "GAS_TWOBODY"),
        "Q3": (["H", "H", "e-"], ["H2", "e-"], (10.5, 299.9), "GAS_TWOBODY"),
        "Q4": (["H", "H", "e-"], ["H2", "e-"], (10.9, 299.5), "GAS_TWOBODY"),
        "Q5": (["H", "H", "e-"], ["H2", "e-"], (0.5, 300.0), "GAS_TWOBODY"),
    }
)
IDS5 = ["A3", "Q1", "Q2", "Q3", "Q4", "Q5", "A0"]
IDS = [k for k in POOL if k not in ("Q1", "Q2", "Q3", "Q4", "Q5", "E0", "E1", "E2", "O0", "O1", "S0", "S1", "A7", "A8", "F0", "F1", "F2", "F3", "A9", "N2", "N3", "N4", "Y0", "YK", "YU", "YC", "ZK", "ZU", "W0", "WL")]
MODES = [None, "brief", "minimal", "short"]


def related(a, b, mode):
    ra, pa, wa, ta = POOL[a]
    rb, pb, wb, tb = POOL[b]
    ident = (lambda x: "e-" if x == "E" else "#CO" if x == "GCO" else x) if mode in (None, "brief") else (lambda x: x)  # species identity vs printed name
    same_rp = sorted(map(ident, ra)) == sorted(map(ident, rb)) and sorted(map(ident, pa)) == sorted(map(ident, pb))
    if mode in ("brief", "minimal"):
        return same_rp
    if mode == "short":
        return same_rp and wa == wb and ta == tb
    # default mode compares the type itself: the per-format enumerations share their codes (KIDA_MA = UMIST_TWOBODY =
    # UCLCHEM_MA = GAS_TWOBODY = 100); short mode compares the printed type NAME, which differs between the classes
    code = lambda t: 100 if t in ("KIDA_MA", "UMIST_TWOBODY", "UCLCHEM_MA", "GAS_TWOBODY") else 200 if t in ("GRAIN_FREEZE", "LEEDS_FREEZE") else t
    return same_rp and wa == wb and (code(ta) == code(tb) or "UNKNOWN" in (ta, tb))


def transitive(ids, mode):
    s = sorted(set(ids))
    for a, b, c in itertools.permutations(s, 3):
        if related(a, b, mode) and related(b, c, mode) and not related(a, c, mode):
            return False
    return True


def reference(ids, mode):
    dup = [i for i in range(len(ids)) if any(related(ids[j], ids[i], mode) for j in range(i))]
    # classes (relation is transitive on the judged lists)
    firsts = []
    for i in range(len(ids)):
        if i in dup:
            continue
        if any(related(ids[i], ids[k], mode) for k in range(i + 1, len(ids))):
            firsts.append(i)
    return dup, firsts


_INST = None


def instances():
    global _INST
    if _INST is None:
        from naunet.reactions.reaction import Reaction
        from naunet.reactiontype import ReactionType

        _INST = {}
        for rid, (r, p, (lo, hi), t) in POOL.items():
            _INST[rid] = (r, p, lo, hi, ReactionType[t] if rid not in FORMAT_OF else None)
    return _INST


def mk(rid):
    from naunet.reactions.reaction import Reaction

    r, p, lo, hi, t = instances()[rid]
    if rid in FORMAT_OF:
        from ..ref import formats as F
        from naunet.reactions.kidareaction import KIDAReaction
        from naunet.reactions.umistreaction import UMISTReaction
        from naunet.reactions.uclchemreaction import UCLCHEMReaction

        fmt = FORMAT_OF[rid]
        if fmt == "leeds":
            from naunet.reactions.leedsreaction import LEEDSReaction
            from . import c05

            x = LEEDSReaction(c05.encode("leeds", 7, None, list(r), list(p), 1.0, 0.0, 0.0, 7, int(lo), int(hi)))
            x._vid = rid
            return x
        ar = F.AReaction(list(r), list(p), 1.0, 0.0, 0.0, lo, hi, 7, {"kida": 3, "umist": "NN", "uclchem": None}[fmt], None)
        if fmt == "kida":
            ar = F.AReaction(list(r), list(p), 1.0, 0.0, 0.0, int(lo), int(hi), 7, 3, None)
        x = {"kida": KIDAReaction, "umist": UMISTReaction, "uclchem": UCLCHEMReaction}[fmt]({"kida": F.enc_kida, "umist": F.enc_umist, "uclchem": F.enc_uclchem}[fmt](ar))
        x._vid = rid
        return x
    x = Reaction(list(r), list(p), lo, hi, 1.0, 0.0, 0.0, t)
    x._vid = rid
    return x


def run_chunk(lists):
    from ..harness.render import reset_globals, quiet

    reset_globals()
    from naunet.network import Network

    viols = []
    judged = skipped = 0
    with quiet():
        for ids in lists:
            reacs = [mk(r) for r in ids]
            for mode in MODES:
                if not transitive(ids, mode):
                    skipped += 1
                    continue
                judged += 1
                case = {"ids": list(ids), "mode": mode}
                net = Network(list(reacs))
                if len(net.reaction_list) != len(ids):
                    raise HarnessError("network dropped a reaction")
                try:
                    dupes, dupidx, first = net.find_duplicate_reaction(mode=mode)
                except Exception as e:
                    viols.append((f"C15:raises:{mode}:{type(e).__name__}", f"{ids} mode={mode}: {e!r}", case))
                    continue
                edup, efirst = reference(ids, mode)
                got_first = [next((i for i, r in enumerate(net.reaction_list) if r is f), None) for f in first]
                if None in got_first:
                    viols.append((f"C15:first-objects:{mode}", f"{ids} mode={mode}: the reported first members are not reactions of the network (copies: index {[getattr(f, 'idxfromfile', None) for f in first]})", case))
                    continue
                if list(dupidx) != edup:
                    kind = "missed" if set(edup) - set(dupidx) else "spurious" if set(dupidx) - set(edup) else "order"
                    viols.append((f"C15:dupidx:{mode}:{kind}", f"{ids} mode={mode}: reported indices {list(dupidx)}, pairwise reference {edup}", case))
                    continue
                if [getattr(d, "_vid", None) for d in dupes] != [ids[i] for i in edup]:
                    viols.append((f"C15:dupes-objects:{mode}", f"{ids} mode={mode}: reported reactions do not match reported indices", case))
                if sorted(got_first) != efirst:
                    viols.append((f"C15:first:{mode}", f"{ids} mode={mode}: first members {sorted(got_first)}, reference {efirst}", case))
                # removal round trip
                net.remove_reaction(list(dupidx))
                left = [r._vid for r in net.reaction_list]
                exp_left = [ids[i] for i in range(len(ids)) if i not in edup]
                if left != exp_left:
                    viols.append((f"C15:after-removal:{mode}", f"{ids} mode={mode}: left {left}, expected {exp_left}", case))
                    continue
                d2, i2, f2 = net.find_duplicate_reaction(mode=mode)
                if list(i2) or list(f2):
                    viols.append((f"C15:second-call:{mode}", f"{ids} mode={mode}: after removing the duplicates a second call still reports {list(i2)}", case))
    return len(lists), judged, skipped, viols


def run_edited(lists):
    """a reaction edited in place after a first duplicate search (its species, window and type become those of another
    pool member): the second search must see the list as it is now"""
    from ..harness.render import reset_globals, quiet

    reset_globals()
    from naunet.network import Network
    from naunet.species import Species
    from naunet.reactiontype import ReactionType

    viols = []
    n = 0
    with quiet():
        for ids in lists:
            for src in [x for x in ("A0", "A2", "A3", "B0", "B1", "M2") if x != ids[-1]]:
                reacs = [mk(r) for r in ids]
                net = Network(list(reacs))
                net.find_duplicate_reaction()  # whatever this leaves behind must not matter
                r, p_, lo, hi, t = instances()[src]
                tgt = net.reaction_list[-1]
                tgt.reactants = [Species(x) for x in r if x not in ("CR", "PHOTON")]
                tgt.products = [Species(x) for x in p_]
                tgt.temp_min, tgt.temp_max, tgt.reaction_type = lo, hi, t
                now = list(ids[:-1]) + [src]
                for mode in (None, "brief"):
                    if not transitive(now, mode):
                        continue
                    n += 1
                    edup, _ = reference(now, mode)
                    _d, dupidx, _f = net.find_duplicate_reaction(mode=mode)
                    if list(dupidx) != edup:
                        viols.append((f"C15:after-edit:{mode}", f"{list(ids)} with the last reaction edited into {src} after a first search, mode={mode}: reported {list(dupidx)}, reference {edup}", {"ids": list(ids), "edited_into": src, "mode": mode}))
    return n, viols


def run(ctx):
    nmax = 4 if ctx.tier == "quick" else 5
    lists = [l for n in range(1, nmax + 1) for l in itertools.product(IDS, repeat=n)]
    lists += [l for n in range(2, 5) for l in itertools.product(IDS2, repeat=n)]
    lists += [l for n in range(2, 5) for l in itertools.product(IDS3, repeat=n)]
    lists += [l for n in range(2, 4) for l in itertools.product(IDS4, repeat=n)]
    lists += [l for n in range(2, 4) for l in itertools.product(IDS5, repeat=n)]
    chunks = [lists[i : i + 300] for i in range(0, len(lists), 300)]
    tot = judged = skipped = 0
    for n, j, s, viols in ctx.pmap(run_chunk, chunks):
        tot += n
        judged += j
        skipped += s
        ctx.absorb(viols)
    ed = [l for n_ in (2, 3) for l in itertools.product(["A0", "A1", "A3", "B0", "B1", "M1"], repeat=n_)]
    nedit = 0
    for n_, viols in ctx.pmap(run_edited, [ed[i : i + 40] for i in range(0, len(ed), 40)]):
        nedit += n_
        ctx.absorb(viols)
    ctx.assumptions += [
        "equivalence per mode: default = same reactant/product multisets, same window, same type or either type UNKNOWN; brief/minimal = same multisets; short = same multisets, window and type name",
        "in default mode the UNKNOWN wildcard makes the relation non-transitive when it bridges two different known types; such (list, mode) pairs are enumerated but not judged (counted as skipped)",
    ]
    return {
        "evaluations": judged + skipped + nedit,
        "searches_after_in_place_edit": nedit,
        "distinct_nontrivial": judged,
        "rule": f"all lists of length <= {nmax} over a pool of 11 reactions (two bases, a multiplicity-only pair; permuted reactants / products, windows differing in both bounds / only the upper / only the lower bound, other type, unknown type) a second pool of electron/label permutations a third of reactions with an empty side and a fourth holding one reaction as instances of the plain, KIDA, UMIST and UCLCHEM classes and a fifth of windows differing by a fraction of a kelvin x modes default/brief/minimal/short; O(n^2) pairwise reference; removal round trip and second call",
        "samples": [list(l) for l in lists[:: max(1, len(lists) // 6)][:6]],
        "lists": len(lists),
        "judged_list_mode_pairs": judged,
        "skipped_non_transitive": skipped,
        "exhaustive": True,
    }


def replay(ctx, case):
    if "edited_into" in case:
        ctx.absorb(run_edited([tuple(case["ids"])])[1])
        return
    n, j, s, v = run_chunk([tuple(case["ids"])])
    ctx.absorb([x for x in v if x[2]["mode"] == case["mode"]])
