"""C12 - KROME rate expressions keep their value when translated from Fortran to C."""
from __future__ import annotations

import itertools
import math
import re

from ..core.runner import HarnessError, REPO
from ..ctext.cexpr import CSyntaxError, eval_double, parse_expr
from ..ref import fortranexpr as FX
from ..ref.ratelaws import same

LEVEL = "exploration"

OPS = ["+", "-", "*", "/", "**"]
PREC = {"+": 1, "-": 1, "*": 2, "/": 2, "**": 3}
LEAVES_FULL = ["2d0", "1.5d-1", "3", "-2", "Tgas", "invT", "foo", "n(idx_H)", "n(idx_D)", "a2d3", "1.d0", "2.5e0"]
LEAVES_QUICK = ["2d0", "3", "-2", "Tgas", "foo", "n(idx_H)"]
LEAVES_4 = ["2d0", "3", "Tgas", "n(idx_H)"]
IDX_LEAVES = ["n(idx_H2)", "n(idx_Hep)", "n(idx_Hm)", "n(idx_E)", "n(idx_CO)", "n(idx_Hp)"]

VALUATIONS = [
    {"Tgas": 7.0, "invT": 0.3, "foo": 1.7, "a2d3": 1.1, "H": 2.3, "D": 3.1, "H2": 0.9, "He+": 1.3, "H-": 0.7, "e-": 0.6, "CO": 1.9, "H+": 2.9},
    {"Tgas": 113.0, "invT": 0.011, "foo": 0.19, "a2d3": 2.3, "H": 0.13, "D": 1.7, "H2": 5.0, "He+": 0.3, "H-": 1.1, "e-": 2.6, "CO": 0.9, "H+": 0.29},
    {"Tgas": 0.5, "invT": 2.0, "foo": -1.3, "a2d3": 0.7, "H": 1.9, "D": 0.37, "H2": 1.4, "He+": 2.2, "H-": 3.3, "e-": 1.6, "CO": 2.1, "H+": 0.59},
    {"Tgas": 2.0, "invT": 0.5, "foo": 3.0, "a2d3": 5.0, "H": 7.0, "D": 11.0, "H2": 13.0, "He+": 17.0, "H-": 19.0, "e-": 23.0, "CO": 29.0, "H+": 31.0},
    {"Tgas": 1e4, "invT": 1e-4, "foo": 0.023, "a2d3": 0.41, "H": 1e-3, "D": 2e-5, "H2": 0.5, "He+": 1e-9, "H-": 1e-11, "e-": 1e-4, "CO": 1e-5, "H+": 1e-4},
]
# which species a KROME index names (naunet's own convention: trailing p = '+', m = '-')
IDX2SPEC = {"idx_H": "H", "idx_D": "D", "idx_H2": "H2", "idx_Hep": "He+", "idx_Hm": "H-", "idx_E": "e-", "idx_CO": "CO", "idx_Hp": "H+"}
# the macro each species gets in a rendered network (documented alias rule)
SPEC2MACRO = {"H": ["IDX_HI"], "D": ["IDX_DI"], "H2": ["IDX_H2I"], "He+": ["IDX_HeII"], "H-": ["IDX_HM"], "e-": ["IDX_eM", "IDX_EM"], "CO": ["IDX_COI"], "H+": ["IDX_HII"]}


# ---- expression trees -------------------------------------------------------
def shapes(n):
    """all binary tree shapes with n leaves: leaf = None, node = (l, r)"""
    if n == 1:
        return [None]
    out = []
    for k in range(1, n):
        for l in shapes(k):
            for r in shapes(n - k):
                out.append((l, r))
    return out


def fill(shape, ops, leaves):
    """assign ops (iterator) and leaves (iterator) in-order"""
    if shape is None:
        return next(leaves)
    l = fill(shape[0], ops, leaves)
    op = next(ops)
    r = fill(shape[1], ops, leaves)
    return (op, l, r)


def nops(shape):
    return 0 if shape is None else 1 + nops(shape[0]) + nops(shape[1])


def prec_of(node):
    if isinstance(node, str):
        return 9
    if node[0] == "fn":
        return 9
    return PREC[node[0]]


def show(node, leading=True, full=False):
    if isinstance(node, str):
        if node.startswith("-") and not leading:
            return f"({node})"
        return node
    if node[0] == "fn":
        return f"{node[1]}({show(node[2], True, full)})"
    op, l, r = node
    p = PREC[op]
    ls = show(l, leading, full)
    rs = show(r, False, full)
    lp, rp = prec_of(l), prec_of(r)
    if isinstance(l, str) and l.startswith("-") and leading:
        lp = 9
    if full:
        if not isinstance(l, str):
            ls = f"({ls})"
        if not isinstance(r, str) and r[0] != "fn":
            rs = f"({rs})"
        return f"{ls}{op}{rs}"
    if lp < p or (lp == p and op == "**"):
        ls = f"({show(l, True, full)})"
    if rp < p or (rp == p and op != "**"):
        rs = f"({show(r, True, full)})"
    return f"{ls}{op}{rs}"


def gen_strings(tier):
    seen = set()

    def emit(node):
        for full in (False, True):
            s = show(node, True, full)
            if s not in seen:
                seen.add(s)
                yield s

    leaves = LEAVES_QUICK if tier == "quick" else LEAVES_FULL
    for n in (1, 2, 3):
        for sh in shapes(n):
            k = nops(sh)
            for ops in itertools.product(OPS, repeat=k):
                for lv in itertools.product(leaves, repeat=n):
                    node = fill(sh, iter(ops), iter(lv))
                    yield from emit(node)
    if tier != "quick":
        for sh in shapes(4):
            for ops in itertools.product(OPS, repeat=3):
                for lv in itertools.product(LEAVES_4, repeat=4):
                    yield from emit(fill(sh, iter(ops), iter(lv)))
    # function wrappers around <= 2-leaf subtrees
    wl = ["2d0", "Tgas", "-2", "n(idx_H)"]
    for fn in ("exp", "sqrt", "log", "dexp", "log10", "dlog", "dsqrt", "dlog10", "abs", "EXP", "SQRT", "Log10"):
        for a in wl:
            yield from emit(("fn", fn, a))
            for op in OPS:
                for b in wl:
                    yield from emit(("fn", fn, (op, a, b)))
                    yield from emit((op, ("fn", fn, a), b))
                    yield from emit((op, b, ("fn", fn, a)))
    # powers with the exponents an optimiser likes to special-case (sqrt, reciprocal, square, unit, zero), in every
    # operator context on either side
    for base in ("Tgas", "(Tgas/3d2)", "2d0", "n(idx_H)", "foo"):
        for ex in ("0.5", "0.5d0", "(-0.5)", "(-0.5d0)", "1", "(-1)", "2", "(-2)", "0", "1.0d0", "3", "(1d0/2d0)", "(1/3)", "(3/2)", "(1/2)", "( 2 / 3 )", "(5/2)", "(1/2d0)", "(7/2/2)"):
            pw = f"{base}**{ex}"
            for s_ in (pw, f"2d0/{pw}", f"2d0*{pw}", f"{pw}/Tgas", f"Tgas-{pw}", f"{pw}-Tgas", f"3/{pw}/foo", f"exp(-{pw})", f"({pw})**2", f"2d0**{pw}" if base != "2d0" else pw):
                if s_ not in seen:
                    seen.add(s_)
                    yield s_
    # quotients of two integer literals (Fortran and C both truncate; a translator must not "repair" them)
    for q in ("1/3", "3/2", "5/2", "7/2/2", "2/3", "1 / 2"):
        for s_ in (q, f"({q})", f"{q}*Tgas", f"Tgas*{q}", f"Tgas*({q})", f"({q})*Tgas", f"Tgas**{q}", f"2d0*{q}", f"exp(-{q})", f"exp(-({q})*Tgas/1d2)", f"foo+{q}"):
            if s_ not in seen:
                seen.add(s_)
                yield s_
    # double-precision literals in every mantissa shape (integer mantissas with trailing zeros, trailing-zero
    # fractions, no digit before / after the point) x exponent shapes
    for lit in ("10d0", "300d0", "20d-1", "100d0", "1000d-3", "1.00d0", "2.00d-10", "10.5d0", "1.d0", ".5d0", "5.d-1", "30d1", "3d2", "1.50d+1", "200e0", "10e0"):
        for s_ in (lit, f"Tgas/{lit}", f"(Tgas/{lit})**0.5", f"{lit}*Tgas", f"exp(-{lit}/Tgas)", f"foo+{lit}"):
            if s_ not in seen:
                seen.add(s_)
                yield s_
    # real literals written without an exponent ("300.", "2.", ".5", "0.5"): a quotient of two of them, or of one of
    # them and an integer literal, is a REAL quotient in Fortran and must stay one in C
    for q in ("2./3.", "3./2", "1./2", "1/2.", "2./3", "5./2.", ".5/2", "300./100", "3.0/2", "1./3./2"):
        for s_ in (q, f"({q})", f"{q}*Tgas", f"Tgas*({q})", f"Tgas**({q})", f"(Tgas/300.)**({q})", f"exp(-({q})*Tgas/100.)", f"foo+{q}", f"2d0*{q}"):
            if s_ not in seen:
                seen.add(s_)
                yield s_
    for lit in ("300.", "2.", ".5", "0.5", "10.", "1.50"):
        for s_ in (lit, f"Tgas/{lit}", f"(Tgas/{lit})**0.5", f"{lit}*Tgas", f"exp(-{lit}/Tgas)", f"foo+{lit}", f"3/{lit}", f"{lit}/3"):
            if s_ not in seen:
                seen.add(s_)
                yield s_
    # abundance references beyond one-letter species
    for lf in IDX_LEAVES:
        yield lf
        yield f"2d0*{lf}"
        yield f"{lf}/n(idx_H)"


NEAR_MISS = ["-Tgas", "-Tgas*2d0", "2d0*-Tgas", "1.5d+3", "1.5D0", "+Tgas", "Tgas.gt.1d2", "1d0 &", "2d0**", "(Tgas", "max(Tgas,2d0)", "1.5d0d0", "Tgas***2", "2d0//3"]


def bundled_expressions():
    out = []
    for p in list((REPO / "naunet" / "examples").glob("*/*.krome")) + list((REPO / "tests" / "data").glob("*.krome")):
        fmt = "idx,r,r,r,p,p,p,p,tmin,tmax,rate"
        for ln in p.read_text().splitlines():
            s = ln.strip()
            if not s or s.startswith(("#", "//")):
                continue
            if s.startswith("@format:"):
                fmt = s[8:].lower()
                continue
            if s.startswith("@"):
                continue
            keys = fmt.split(",")
            vals = s.split(",")
            for k, v in zip(keys, vals):
                if k.strip() == "rate":
                    out.append(v.strip())
    return out


# ---- translation through the real code -----------------------------------------
_R = None


class TranslatorTimeout(BaseException):
    pass


def _on_alarm(signum, frame):
    raise TranslatorTimeout()


def translate(expr, limit=10):
    """real path: KROMEReaction(line).rateexpr().  lark's Earley parser is exponential on
    some ambiguous chains (a**b**c**d): a per-expression alarm turns that into 'not judged'."""
    import signal
    from naunet.reactions.kromereaction import KROMEReaction

    line = f"1,H,,,H,,,,NONE,NONE,{expr}"
    signal.signal(signal.SIGALRM, _on_alarm)
    signal.alarm(limit)
    try:
        r = KROMEReaction(line)
        return r.rateexpr()
    finally:
        signal.alarm(0)


def c_value(ctext, val):
    macros = {}
    arr = {}
    i = 0
    for sp, ms in SPEC2MACRO.items():
        for m in ms:
            macros[m] = i
        arr[i] = val[sp]
        i += 1
    env = dict(val)
    env.update({k: __import__("mc.ctext.cexpr", fromlist=["CInt"]).CInt(v) for k, v in macros.items()})
    # derived names the translator introduces
    env.setdefault("nH", 1e4)
    ast = parse_expr(ctext)
    return float(eval_double(ast, env, None, {"y": lambda j: arr[j]}))


def f_value(expr, val, **kw):
    arrays = {k: val[v] for k, v in IDX2SPEC.items()}
    e = expr.replace("dexp", "exp") if False else expr
    return float(FX.evaluate(e, val, arrays, **kw))


def classify(expr, ctext, val, got):
    """which *wrong* reading of the Fortran text reproduces the C value?  (fewest deviations first)"""
    names = {"lap": "power-left-associative", "tsl": "signed-literal-binds-tighter-than-power", "real": "integer-power-computed-in-double"}
    combos = [("real",), ("lap",), ("tsl",), ("lap", "real"), ("tsl", "real"), ("lap", "tsl"), ("lap", "tsl", "real")]
    for c in combos:
        try:
            alt = f_value(expr, val, left_assoc_pow="lap" in c, tight_signed_literal="tsl" in c, pow_real="real" in c)
        except Exception:
            continue
        if same(alt, got, 1e-9):
            return "+".join(names[x] for x in c)
    # pow(a, b+c) emitted for a**b+c : the exponent absorbed a following additive term
    def absorbed(ast):
        if isinstance(ast, tuple):
            if ast[0] == "call" and ast[1] == "pow" and len(ast[2]) == 2 and any(a[0] == "bin" and a[1] in "+-" for a in ast[2]):
                return True
            return any(absorbed(c) for c in ast[1:] if isinstance(c, (tuple, list))) or any(
                absorbed(x) for c in ast[1:] if isinstance(c, list) for x in c
            )
        return False

    try:
        if absorbed(parse_expr(ctext)) and "(" not in expr.replace("(-2)", "").replace("n(idx", ""):
            return "power-operand-absorbs-additive-term"
    except CSyntaxError:
        pass
    skel = re.sub(r"n\(idx_\w+\)", "N", expr)
    skel = re.sub(r"[A-Za-z_]\w*", "v", skel)
    skel = re.sub(r"\d+\.?\d*(?:[de][+-]?\d+)?", "c", skel)
    return "other:" + skel[:40]


def run_chunk(exprs):
    from ..harness.render import reset_globals, quiet

    reset_globals()
    from naunet.reactions.kromereaction import KROMEReaction

    KROMEReaction.initialize()
    KROMEReaction._user_vars = ["foo = 1.7", "a2d3 = 1.1"]
    viols = []
    judged = rejected = 0
    outcomes = set()
    timeouts = []
    with quiet():
        for expr in exprs:
            # reference first: an expression my evaluator cannot read is a harness bug
            try:
                refs = []
                for val in VALUATIONS:
                    try:
                        refs.append(f_value(expr, val))
                    except (ZeroDivisionError, OverflowError):
                        refs.append(None)  # value undefined in Fortran: not judged
            except FX.FortranSyntaxError as e:
                raise HarnessError(f"own Fortran evaluator cannot read generated expression {expr!r}: {e}")
            try:
                ctext = translate(expr)
            except TranslatorTimeout:
                outcomes.add("timeout")
                timeouts.append(expr)
                continue
            except Exception as e:
                rejected += 1
                outcomes.add("rejected")
                continue
            judged += 1
            case = {"expr": expr, "c": ctext}
            # the emitted text must be C
            try:
                parse_expr(ctext)
            except CSyntaxError as e:
                viols.append((f"C12:not-c", f"{expr!r} -> {ctext!r}: not a C expression ({e})", case))
                continue
            # identifiers must be preserved
            if "a2d3" in expr and "a2d3" not in ctext:
                viols.append((f"C12:identifier-altered:digit-d-digit", f"{expr!r} -> {ctext!r}: user variable a2d3 was rewritten by the d-exponent pre-pass", case))
                continue
            bad = None
            for val, ref in zip(VALUATIONS, refs):
                if ref is None:
                    continue
                try:
                    got = c_value(ctext, val)
                except KeyError as e:
                    if "unknown function" in str(e):
                        # a Fortran-only intrinsic passed through verbatim: the C compiler refuses the unit (loud), not judged
                        bad = "c-refuses-function"
                        break
                    m = re.search(r"IDX_\w+", ctext)
                    nm = str(e).strip("'")
                    idxs = re.findall(r"idx_\w+", expr)
                    viols.append((f"C12:idx-unresolved:{nm}", f"{expr!r} -> {ctext!r}: {nm} is not the abundance macro of the referenced species ({[IDX2SPEC.get(i) for i in idxs]} -> {[SPEC2MACRO.get(IDX2SPEC.get(i)) for i in idxs]})", case))
                    bad = "idx"
                    break
                except ZeroDivisionError:
                    continue
                if not same(got, ref, 1e-9):
                    cls = classify(expr, ctext, val, got)
                    viols.append((f"C12:value:{cls}", f"{expr!r} -> {ctext!r}: Fortran value {ref!r}, C value {got!r} at {val}", case))
                    bad = "value"
                    break
            outcomes.add(bad or "equal")
    outcomes.update("timeout:" + t for t in timeouts[:3])
    return len(exprs), judged, rejected, viols, outcomes


IDX_LETTERS = ["H", "D", "C", "N", "O", "F", "P", "S"]


def run_idx_letters(_):
    """every one-letter species index with its charge suffixes (naunet's convention: X, Xp, Xm) in three contexts:
    the reference must name exactly the abundance macro of that species and nothing else may change"""
    from ..harness.render import reset_globals, quiet

    reset_globals()
    from naunet.reactions.kromereaction import KROMEReaction

    KROMEReaction.initialize()
    viols = []
    n = 0
    with quiet():
        for X in IDX_LETTERS:
            for suf, ali in (("", "I"), ("p", "II"), ("m", "M")):
                for ctx_ in ("{}", "2d0*{}*exp(-1d2/Tgas)", "Tgas**0.5*{}/({}+1d0)"):
                    expr = ctx_.replace("{}", f"n(idx_{X}{suf})")
                    n += 1
                    case = {"expr": expr, "idx_letters": True}
                    try:
                        ctext = translate(expr)
                    except Exception as e:
                        viols.append((f"C12:idx-letter:raises:{X}{suf}", f"{expr!r}: translator raises {e!r}", case))
                        continue
                    macros = set(re.findall(r"IDX_\w+", ctext))
                    want = {f"IDX_{X}{ali}"}
                    rest = re.sub(r"y\[IDX_\w+\]", "Y", ctext)
                    want_rest = re.sub(r"y\[IDX_\w+\]", "Y", translate(ctx_.replace("{}", "n(idx_H)")))
                    if macros != want:
                        viols.append((f"C12:idx-letter:wrong-macro:{X}{suf}", f"{expr!r} -> {ctext!r}: names {sorted(macros)}, the species {X}{'+' if suf == 'p' else '-' if suf == 'm' else ''} has {sorted(want)}", case))
                    elif rest != want_rest:
                        viols.append((f"C12:idx-letter:collateral:{X}{suf}", f"{expr!r} -> {ctext!r}: text around the reference changed (with idx_H: {want_rest!r})", case))
    return n, viols


def run_shortcuts(_):
    """The bundled KROME rates are written in KROME's shortcut variables (Te, lnTe, T32, invT, invTe, sqrTgas).  For
    those rates to keep their value as functions of the gas temperature, the definitions the translator registers
    for them must be KROME's own (krome_user_commons / the KROME manual): checked on five temperatures."""
    import math

    from ..ctext.cexpr import eval_double, parse_expr
    from ..harness.render import reset_globals, quiet

    reset_globals()
    from naunet.reactions.kromereaction import KROMEReaction

    KROMEReaction.initialize()
    with quiet():
        r = KROMEReaction("1,H,,,H,,,,NONE,NONE,1d0")
    defs = dict(r.deriveds)
    viols = []
    n = 0
    for T in (7.0, 113.0, 0.5, 2.0, 1e4):
        te = T * 8.617343e-5
        ref = {"Te": te, "lnTe": math.log(te), "T32": T / 300.0, "invT": 1.0 / T, "invTe": 1.0 / te, "sqrTgas": math.sqrt(T)}
        env = {"Tgas": T}
        for name, text in defs.items():
            if name not in ref:
                continue
            n += 1
            try:
                env[name] = float(eval_double(parse_expr(text), env, {"log": math.log, "sqrt": math.sqrt, "exp": math.exp, "log10": math.log10}))
            except Exception as e:
                viols.append((f"C12:shortcut:unreadable:{name}", f"{name} = {text!r}: {e!r}", {"shortcuts": True}))
                continue
            if not same(env[name], ref[name], 1e-12):
                viols.append((f"C12:shortcut:value:{name}", f"shortcut {name} = {text!r} gives {env[name]!r} at Tgas = {T}, KROME defines it as {ref[name]!r}", {"shortcuts": True}))
        for name in ref:
            if name not in defs:
                viols.append((f"C12:shortcut:missing:{name}", f"shortcut {name} is not defined", {"shortcuts": True}))
    return n, viols


HISTORY_EXPRS = ["1.5d-1*Tgas", "2d0**3", "Tgas**(-0.5)", "exp(-3d0*invT)", "n(idx_H)*2d0", "foo/Tgas", "3/2*Tgas", "sqrt(Tgas)-2d0*foo", "1d-10"]


def run_history(_):
    """The translation is a function of the expression alone: translating other expressions before (the converter
    object is shared by all KROME reactions), translating the same reaction twice, and giving a reaction another
    expression (`rate_string` is the one handle the API offers for that) must each give the text a fresh
    translation of that expression gives.  All ordered pairs and all re-assignments over nine expressions."""
    from ..harness.render import reset_globals, quiet

    reset_globals()
    from naunet.reactions.kromereaction import KROMEReaction

    KROMEReaction.initialize()
    KROMEReaction._user_vars = ["foo = 1.7", "a2d3 = 1.1"]
    viols = []
    n = 0
    with quiet():
        fresh = {}
        for e in HISTORY_EXPRS:
            fresh[e] = KROMEReaction(f"1,H,,,H,,,,NONE,NONE,{e}").rateexpr()
        for e1 in HISTORY_EXPRS:
            for e2 in HISTORY_EXPRS:
                case = {"history": [e1, e2]}
                # (a) two reactions, translated alternately
                r1 = KROMEReaction(f"1,H,,,H,,,,NONE,NONE,{e1}")
                r2 = KROMEReaction(f"2,H,,,H,,,,NONE,NONE,{e2}")
                got = [r1.rateexpr(), r2.rateexpr(), r1.rateexpr(), r2.rateexpr()]
                n += 1
                if got != [fresh[e1], fresh[e2], fresh[e1], fresh[e2]]:
                    viols.append(("C12:history:alternating", f"translating {e1!r} and {e2!r} alternately gives {got}, fresh translations are {fresh[e1]!r} / {fresh[e2]!r}", case))
                # (b) one reaction whose expression is replaced after it was translated (and printed) once
                r = KROMEReaction(f"1,H,,,H,,,,NONE,NONE,{e1}")
                first = r.rateexpr()
                str(r)
                r.rate_string = e2
                second = r.rateexpr()
                n += 1
                if first != fresh[e1] or second != fresh[e2]:
                    viols.append(("C12:history:expression-replaced", f"a reaction translated with {e1!r} and then given rate_string = {e2!r} translates to {second!r}; a fresh reaction with that expression gives {fresh[e2]!r}", case))
    return n, viols


def run_uservars(_):
    """`@var:` lines are assignments KROME executes in file order: a variable assigned twice (a default in the header,
    an override further down) has the value of the LAST assignment in every rate that follows; a variable defined
    from another one sees that one's value.  The file is read by Network, the rates are rendered and the generated
    definitions are evaluated."""
    import math
    import shutil
    import tempfile
    from pathlib import Path

    from ..harness import ratesrun as RR
    from ..harness.render import render, reset_globals, quiet, scratch

    reset_globals()
    from naunet.network import Network

    viols = []
    n = 0
    tmp = Path(tempfile.mkdtemp(dir=scratch()))
    try:
        for tag, header, want in (
            ("assigned-twice", ["@var: fscale = 4.0", "@var: fscale = 0.25"], {"fscale": 0.25}),
            ("assigned-twice-apart", ["@var: fscale = 4.0", "@common: user_x", "@var: other = 3.0", "@var: fscale = 1.0/8.0"], {"fscale": 0.125, "other": 3.0}),
            ("defined-from-another", ["@var: base = 2.0", "@var: fscale = base*3.0"], {"base": 2.0, "fscale": 6.0}),
            ("single", ["@var: fscale = 4.0"], {"fscale": 4.0}),
            # the right-hand side of a @var line is a Fortran expression like the rates are
            # Fortran's min / max take any number of arguments: whatever is emitted must keep every one of them
            ("variadic-minmax", ["@var: fscale = min(9.0,2.0,5.0)", "@var: other = max(1.0,7.0,3.0,2.0)"], {"fscale": 2.0, "other": 7.0}),
            ("fortran-definition", ["@var: fscale = 4d0"], {"fscale": 4.0}),
            ("fortran-definition", ["@var: fscale = 2d0**2"], {"fscale": 4.0}),
        ):
            f = tmp / f"{tag}.krome"
            f.write_text("\n".join(["@format:idx,R,R,P,P,Tmin,Tmax,rate"] + header + ["1,H,H,H2,,NONE,NONE,1.0d-10*fscale", "2,H2,,H,H,NONE,NONE,fscale*2d0"]) + "\n")
            n += 1
            case = {"uservars": tag}
            try:
                with quiet():
                    net = Network(filelist=str(f), fileformats="krome")
                    files = render(net, "dense", RR.RATE_TEMPLATES_CVODE)
                stmts, decls, macros = RR.read_rate_statements(files)
            except Exception as e:
                viols.append((f"C12:uservar:{tag}:raises", f"{header}: {e!r}", case))
                continue
            env = {"Tgas": 100.0, "nH": 1e4, "user_x": 1.0}
            vals = {}
            notc = None
            for name, expr in decls:
                if expr is None:
                    continue
                try:
                    vals[name] = float(eval_double(parse_expr(expr), {**env, **vals}, {"log": math.log, "sqrt": math.sqrt, "exp": math.exp, "log10": math.log10, "pow": math.pow, "min": min, "max": max}))
                except CSyntaxError:
                    if name in want:
                        notc = (name, expr)
                except Exception:
                    continue
            if notc:
                viols.append((f"C12:uservar:definition-not-c", f"{header}: the generated rates define `{notc[0]} = {notc[1]};` - the right-hand side of the @var line is copied as it stands and is not a C expression", case))
                continue
            for k_, v_ in want.items():
                if k_ not in vals or not same(vals[k_], v_, 1e-12):
                    viols.append((f"C12:uservar:{tag}", f"{header}: the generated rates define {k_} = {vals.get(k_)!r}; KROME executes the @var lines in order, so {k_} = {v_!r}", case))
                    break
        return n, viols
    finally:
        shutil.rmtree(tmp, ignore_errors=True)


def run_near_miss(_):
    from ..harness.render import reset_globals, quiet

    reset_globals()
    from naunet.reactions.kromereaction import KROMEReaction

    KROMEReaction.initialize()
    KROMEReaction._user_vars = ["foo = 1.7"]
    viols = []
    n = 0
    with quiet():
        for expr in NEAR_MISS:
            n += 1
            try:
                ctext = translate(expr)
            except Exception:
                continue  # rejected at generation time: what the property asks for
            case = {"expr": expr, "c": ctext, "near_miss": True}
            # accepted: then it must mean the same where Fortran defines a value
            try:
                ref = [f_value(expr, v) for v in VALUATIONS]
            except Exception:
                viols.append((f"C12:near-miss-accepted:{expr}", f"{expr!r} is outside the supported grammar but was translated to {ctext!r}", case))
                continue
            try:
                got = [c_value(ctext, v) for v in VALUATIONS]
            except Exception as e:
                viols.append((f"C12:near-miss-garbled:{expr}", f"{expr!r} -> {ctext!r}: emitted text cannot be evaluated ({e!r})", case))
                continue
            if not all(same(a, b, 1e-9) for a, b in zip(got, ref)):
                viols.append((f"C12:near-miss-altered:{expr}", f"{expr!r} -> {ctext!r}: Fortran {ref[0]!r} vs C {got[0]!r}", case))
    return n, viols


def run_bundled(exprs):
    """bundled rate expressions: must translate to C text that E4 and Fortran agree on"""
    from ..harness.render import reset_globals, quiet

    reset_globals()
    from naunet.reactions.kromereaction import KROMEReaction

    KROMEReaction.initialize()
    viols = []
    n = 0
    env_extra = {"T32": 7.0 / 300, "Te": 7.0 * 8.617343e-5, "lnTe": math.log(7.0 * 8.617343e-5), "invTe": 1 / (7.0 * 8.617343e-5), "sqrTgas": math.sqrt(7.0), "Hnuclei": 1e4, "nH": 1e4,
                 "user_crflux": 1.3e-17, "user_Av": 1.5, "user_GtoDN": 0.7, "user_crate": 1.3e-17}
    with quiet():
        for expr in exprs:
            n += 1
            try:
                ctext = translate(expr)
            except Exception as e:
                viols.append((f"C12:bundled-rejected:{type(e).__name__}", f"bundled KROME rate {expr[:80]!r} is rejected: {e!r}"[:400], {"expr": expr, "bundled": True}))
                continue
            val = dict(VALUATIONS[0])
            val.update(env_extra)
            try:
                ref = f_value(expr.replace("dexp", "exp"), val)
            except FX.FortranSyntaxError as e:
                raise HarnessError(f"own evaluator cannot read bundled expression {expr!r}: {e}")
            except ZeroDivisionError:
                continue
            try:
                got = c_value(ctext, val)
            except Exception as e:
                viols.append((f"C12:bundled-unreadable:{type(e).__name__}", f"{expr[:80]!r} -> {ctext[:80]!r}: {e!r}", {"expr": expr, "bundled": True}))
                continue
            if not same(got, ref, 1e-9):
                viols.append((f"C12:bundled-value:{classify(expr, ctext, val, got)}", f"{expr[:100]!r} -> {ctext[:100]!r}: Fortran {ref!r} vs C {got!r}", {"expr": expr, "bundled": True}))
    return n, viols


def run(ctx):
    exprs = list(gen_strings(ctx.tier))
    chunks = [exprs[i : i + 400] for i in range(0, len(exprs), 400)]
    tot = judged = rejected = 0
    outcomes = set()
    for n, j, r, viols, oc in ctx.pmap(run_chunk, chunks):
        tot += n
        judged += j
        rejected += r
        outcomes |= oc
        ctx.absorb(viols)
    for n, viols in ctx.pmap(run_shortcuts, [0]):
        ctx.absorb(viols)
    for n, viols in ctx.pmap(run_idx_letters, [0]):
        nidx = n
        ctx.absorb(viols)
    for n, viols in ctx.pmap(run_near_miss, [0]):
        tot += n
        ctx.absorb(viols)
    for n, viols in ctx.pmap(run_uservars, [0]):
        tot += n
        ctx.absorb(viols)
    for n, viols in ctx.pmap(run_history, [0]):
        tot += n
        ctx.absorb(viols)
    bund = bundled_expressions()
    if ctx.tier == "quick":
        bund = bund[:: max(1, len(bund) // 300)]
    bchunks = [bund[i : i + 100] for i in range(0, len(bund), 100)]
    nb = 0
    for n, viols in ctx.pmap(run_bundled, bchunks):
        nb += n
        ctx.absorb(viols)
    ctx.assumptions += [
        "reference semantics: own Fortran evaluator (mc/ref/fortranexpr.py): ** binds tightest and is right-associative, unary minus binds weaker than * and **, integer/integer truncates, integer**integer is integer",
        "C side: the emitted text is evaluated by E4 with C typing rules (int/int truncates, pow returns double) on 5 valuations with pairwise distinct values incl. a negative one",
        "KROME's shortcut variables are free variables of an expression; for the bundled rates (functions of the gas temperature) their registered definitions must be KROME's: Te = Tgas*8.617343e-5, lnTe = log(Te), T32 = Tgas/300, invT = 1/Tgas, invTe = 1/Te, sqrTgas = sqrt(Tgas)",
        "abundance references: naunet's own index convention (trailing p='+', m='-') is assumed when deciding which species n(idx_X) names; the macro a species gets is the documented alias",
        "history clause: over nine expressions, every ordered pair translated alternately through two reactions and every re-assignment of rate_string on a reaction already translated must give the text of a fresh translation",
        "an expression the translator raises on counts as rejected (allowed by the property); it is never judged",
    ]
    return {
        "evaluations": tot + nb + nidx,
        "one_letter_index_references": nidx,
        "distinct_nontrivial": judged + nb,
        "rule": "every binary expression tree with <=3 leaves over the leaf alphabet (thorough: 12 leaves, plus all 4-leaf trees over 4 leaves), printed with minimal and with full parentheses, plus function wrappers, abundance references, near-miss inputs and the rate expressions of the bundled KROME files; distinct strings; non-trivial = accepted by the translator and judged",
        "samples": exprs[:: max(1, len(exprs) // 8)][:8],
        "generated_strings": len(exprs),
        "translated_and_judged": judged,
        "rejected_by_translator": rejected,
        "bundled_expressions": nb,
        "distinct_outcomes": sorted(o for o in outcomes if not o.startswith("timeout:")),
        "translator_timeouts_sample": sorted(o[8:] for o in outcomes if o.startswith("timeout:"))[:10],
        "exhaustive": True,
    }


def replay(ctx, case):
    if "uservars" in case:
        ctx.absorb(run_uservars(0)[1])
        return
    if "history" in case:
        ctx.absorb(run_history(0)[1])
        return
    if case.get("shortcuts"):
        ctx.absorb(run_shortcuts(0)[1])
        return
    if case.get("idx_letters"):
        n, v = run_idx_letters(0)
        ctx.absorb([x for x in v if x[2]["expr"] == case["expr"]])
        return
    if case.get("near_miss"):
        n, v = run_near_miss(0)
        ctx.absorb([x for x in v if x[2]["expr"] == case["expr"]])
    elif case.get("bundled"):
        n, v = run_bundled([case["expr"]])
        ctx.absorb(v)
    else:
        n, j, r, v, oc = run_chunk([case["expr"]])
        ctx.absorb(v)
