"""C06 - a reaction acts only inside its declared temperature window.
Decided by the real compiler: rendered EvalRates is compiled and evaluated at the
exact boundary values and their neighbouring doubles."""
from __future__ import annotations

import math
import shutil
import tempfile
from pathlib import Path

from ..core.runner import HarnessError
from ..ref import formats as F
from . import c05

LEVEL = "exploration"

K = 2.0  # every probe reaction has the constant law k = 2.0, so 'active' <=> k == 2.0

# (name, [(tmin, tmax) pieces])   <= 0 means unbounded
SHAPES_INT = [
    ("zero-zero", [(0, 0)]),
    ("wide", [(-9999, 9999)]),
    ("lower-only", [(10, 0)]),
    ("lower-only-neg", [(10, -1)]),
    ("upper-only", [(0, 300)]),
    ("upper-only-neg", [(-1, 300)]),
    ("both", [(10, 300)]),
    ("adjacent3", [(10, 100), (100, 300), (300, 0)]),
    ("adjacent-from-0", [(0, 100), (100, 41000)]),
    # windows that contain no temperature: a fit quoted at one temperature (KIDA's "298 298"), bounds the wrong way round
    ("empty-window", [(298, 298)]),
    ("inverted", [(300, 10)]),
]
SHAPES_REAL = [
    ("none", [(-1.0, -1.0)]),
    ("inexact-boundary", [(0.1, 0.3), (0.3, 0.7)]),
    ("tiny", [(1e-300, 1e-299)]),
    ("huge", [(1e299, 1e300)]),
    ("fractional", [(10.25, 300.75)]),
]


def temps_for(pieces):
    ts = {1e-300, 1e300, 1.0}
    for lo, hi in pieces:
        for b in (lo, hi):
            if b > 0:
                b = float(b)
                ts.update({b, math.nextafter(b, -math.inf), math.nextafter(b, math.inf), b / 2, b * 2})
        if lo > 0 and hi > 0:
            ts.add((float(lo) + float(hi)) / 2)
    return ts


def active(lo, hi, T):
    return (lo <= 0 or T >= lo) and (hi <= 0 or T < hi)


KROME_SPELL = {
    # how a bound is written -> (tmin text, tmax text) factories
    "plain": (lambda v: f"{v:g}", lambda v: f"{v:g}"),
    "gt-lt": (lambda v: f">{v:g}", lambda v: f"<{v:g}"),
    "fortran-ops": (lambda v: f".GE.{v:g}", lambda v: f".LE.{v:g}"),
    "d-exponent": (lambda v: dexp(v), lambda v: dexp(v)),
    "fortran-ops-d": (lambda v: ".GT." + dexp(v), lambda v: ".LT." + dexp(v)),
    # Fortran allows a number to start with its decimal point
    "leading-point": (lambda v: pointform(v), lambda v: pointform(v)),
    "ops-leading-point": (lambda v: ">" + pointform(v), lambda v: ".LE." + pointform(v)),
}


def pointform(v):
    """v written as .ddd d<exp> (mantissa in [0.1, 1)); falls back to the plain spelling when that is not exact"""
    m, e = f"{float(v):.6e}".split("e")
    digits = m.replace(".", "").rstrip("0") or "0"
    txt = f".{digits}d{int(e) + 1}"
    return txt if float(txt.replace("d", "e")) == float(v) else f"{v:g}"


def dexp(v):
    m, e = f"{float(v):.6e}".split("e")
    m = m.rstrip("0").rstrip(".") if "." in m else m
    if "." not in m:
        m += ".0"
    return f"{m}d{int(e)}"


SHAPES_THOROUGH = [
    ("adjacent4", [(5, 20), (20, 100), (100, 1000), (1000, 0)]),
    ("empty-window-10", [(10, 10)]),
    ("inverted-adjacent", [(300, 299)]),
    ("neg-lower-pos-upper", [(-5, 300)]),
    ("one-kelvin", [(1, 2), (2, 3)]),
]
SHAPES_REAL_THOROUGH = [("subnormal", [(5e-324, 1e-320)]), ("three-decimals", [(10.125, 300.875)]), ("adjacent-inexact3", [(0.1, 0.2), (0.2, 0.3), (0.3, 0)])]


def build_cases(tier):
    """-> {fmt: [ (label, line-or-reaction-args, declared (lo,hi), group id) ]}"""
    out = {}
    gid = 0

    def add(fmt, label, payload, win, g):
        out.setdefault(fmt, []).append((label, payload, win, g))

    shapes = SHAPES_INT + SHAPES_REAL + ((SHAPES_THOROUGH + SHAPES_REAL_THOROUGH) if tier != "quick" else [])
    for name, pieces in shapes:
        isint = all(float(lo).is_integer() and float(hi).is_integer() and abs(lo) < 1e5 and abs(hi) < 1e5 for lo, hi in pieces)
        gid += 1
        for lo, hi in pieces:
            # API: always
            add("api", name, (lo, hi), (float(lo), float(hi)), gid)
            add("naunet", name, (lo, hi), (float(f"{float(lo):9.2f}"), float(f"{float(hi):9.2f}")) if abs(lo) < 1e6 and abs(hi) < 1e6 and (lo <= 0 or lo >= 0.01) else None, gid)
            add("umist", name, (lo, hi), (float(lo), float(hi)), gid)
            add("uclchem", name, (lo, hi), (float(lo), float(hi)), gid)
            if isint:
                add("kida", name, (int(lo), int(hi)), (float(lo), float(hi)), gid)
                add("leeds", name, (int(lo), int(hi)), (float(lo), float(hi)), gid)
            for sp, (fmin, fmax) in KROME_SPELL.items():
                tmin_txt = fmin(lo) if lo > 0 else None
                tmax_txt = fmax(hi) if hi > 0 else None
                add("krome", f"{name}/{sp}", (tmin_txt, tmax_txt), (float(lo) if lo > 0 else -1.0, float(hi) if hi > 0 else -1.0), (gid, sp))
    # KROME's ways of saying "no bound"
    gid += 1
    for none in ("NONE", "N", "N/A", "NO", "", "none"):
        add("krome", f"none/{none or 'empty'}", (none, none), (-1.0, -1.0), gid)
        gid += 1
    # UCLCHEM forces 0-30 K on FREEZE whatever the line says
    add("uclchem-freeze", "freeze-forced-0-30", (10, 41000), (0.0, 30.0), gid + 1)
    # ... and on FREEZE only: the desorption types keep the window their line declares (or none)
    for j, typ in enumerate(("DESCR", "DEUVCR")):  # THERM is not judged: its law underflows to 0 at low temperature
        add("uclchem-freeze", f"desorb/{typ}/declared", (10, 41000), (10.0, 41000.0), gid + 2 + 2 * j)
        add("uclchem-freeze", f"desorb/{typ}/none", (0, 0), (0.0, 0.0), gid + 3 + 2 * j)
    return out


def run_fmt(arg):
    fmt, cases, backend = arg
    from ..harness.render import render, reset_globals, scratch, quiet
    from ..harness import ratesrun as RR

    reset_globals()
    from naunet.network import Network
    from naunet.reactions.reaction import Reaction
    from naunet.reactiontype import ReactionType

    viols = []
    tmp = Path(tempfile.mkdtemp(dir=scratch()))
    kept = []
    try:
        kw = {}
        if fmt == "api":
            reacs = []
            for label, (lo, hi), win, g in cases:
                reacs.append(Reaction(["H", "H2"], ["H2", "H"], lo, hi, K, 0.0, 0.0, ReactionType.GAS_TWOBODY, len(reacs) + 1))
                kept.append((label, win, g))
            # fits that diverge outside the window they are restricted to (that is why databases restrict them):
            # outside, the coefficient must still be exactly +0.0, not 0 * inf
            for n_, (lo, hi, b_, c_) in enumerate([(300.0, 1000.0, 0.0, -8000.0), (10.0, 300.0, 400.0, 0.0), (300.0, 1000.0, -400.0, 0.0)]):
                reacs.append(Reaction(["H", "H2"], ["H2", "H"], lo, hi, K, b_, c_, ReactionType.GAS_TWOBODY, len(reacs) + 1))
                kept.append((f"diverging/{n_}", (lo, hi), ("diverging", n_)))
            # reactions that share their file index with an earlier one (two files each numbered from 1) but not its window
            for n_, (lo, hi, idx_) in enumerate([(300.0, 41000.0, 1), (-1.0, -1.0, 2), (5.0, 10.0, 3), (10.0, 100.0, 1)]):
                reacs.append(Reaction(["H", "H2"], ["H2", "H"], lo, hi, K, 0.0, 0.0, ReactionType.GAS_TWOBODY, idx_))
                kept.append((f"shared-index/{n_}", (lo, hi), ("shared-index", n_)))
            # bounds taken from a numpy table (np.float64 / np.float32 scalars): the guard is still plain C
            import numpy as np

            for n_, (lo, hi) in enumerate([(np.float64(10.0), np.float64(300.0)), (np.float32(300.0), np.float64(-1.0))]):
                reacs.append(Reaction(["H", "H2"], ["H2", "H"], lo, hi, K, 0.0, 0.0, ReactionType.GAS_TWOBODY, len(reacs) + 1))
                kept.append((f"numpy-bounds/{n_}", (float(lo), float(hi)), ("numpy-bounds", n_)))
            with quiet():
                net = Network(reacs)
        else:
            lines = []
            realfmt = fmt
            for label, payload, win, g in cases:
                if win is None:
                    continue
                idx = len(lines) + 1
                if fmt == "krome":
                    r = F.AReaction(["H", "H2"], ["H2", "H"], idx=idx)
                    ln = F.enc_krome(r, tmin_txt=payload[0] if payload[0] is not None else "NONE", tmax_txt=payload[1] if payload[1] is not None else "NONE", rate="2d0")
                elif fmt == "uclchem-freeze":
                    realfmt = "uclchem"
                    if label.startswith("desorb/"):
                        r = F.AReaction(["#CO"], ["CO"], 1.0, 0.0, 0.0, payload[0], payload[1], idx, None, label.split("/")[1])
                    else:
                        r = F.AReaction(["CO"], ["#CO"], 1.0, 0.0, 0.0, payload[0], payload[1], idx, None, "FREEZE")
                    ln = F.enc_uclchem(r)
                else:
                    code = {"kida": 3, "umist": "NN", "leeds": 1, "uclchem": "", "naunet": 100}[fmt]
                    ln = c05.encode(fmt, code, None, ["H", "H2"], ["H2", "H"], K, 0.0, 0.0, idx, payload[0], payload[1])
                lines.append(ln)
                kept.append((label, win, g))
            f = tmp / f"pack.{realfmt}"
            pre = "@format:idx,R,R,R,P,P,P,P,Tmin,Tmax,rate\n" if fmt == "krome" else ""
            f.write_text(pre + "\n".join(lines) + "\n")
            if fmt == "leeds":
                kw["species_kwargs"] = {"surface_prefix": "G"}
            if fmt == "uclchem-freeze":
                kw["grain_model"] = "rr07"
                kw["required_species"] = ["H2", "H"]  # UCLCHEM deriveds reference IDX_H2I / IDX_HI
            with quiet():
                net = Network(filelist=str(f), fileformats=realfmt, **kw)
            if len(net.reaction_list) != len(lines):
                return 0, [(f"C06:pack-size:{fmt}", f"{len(lines)} data lines gave {len(net.reaction_list)} reactions", {"fmt": fmt})], 0
            for (label, win, g), r in zip(kept, net.reaction_list):
                # the *declared* window is what the line says; what the parser stored is C07's
                # business, but a disagreement here would make the verdict ambiguous: report it
                if fmt != "uclchem-freeze" and (float(r.temp_min), float(r.temp_max)) != win and not (win[0] <= 0 and r.temp_min <= 0 and win[1] <= 0 and r.temp_max <= 0) and not (win[0] <= 0 and r.temp_min <= 0 and r.temp_max == win[1]) and not (win[1] <= 0 and r.temp_max <= 0 and r.temp_min == win[0]):
                    viols.append((f"C06:parsed-window:{fmt}:{label.split('/')[-1]}", f"{fmt} '{label}': declared window {win} parsed as ({r.temp_min},{r.temp_max})", {"fmt": fmt, "label": label}))
        solver = "odeint" if backend == "rosenbrock4" else "cvode"
        files = render(net, backend, RR.RATE_TEMPLATES_ODEINT if solver == "odeint" else RR.RATE_TEMPLATES_CVODE)
        stmts, decls, macros = RR.read_rate_statements(files, source="src/naunet_ode.cpp" if solver == "odeint" else "src/naunet_rates.cpp")
        temps = sorted(set().union(*[temps_for([w]) for _, w, _ in kept]))
        fields = [f for f, _ in RR.data_fields(files)]
        base = {"nH": 1e4, "zeta": 1.3e-17, "Av": 1.0, "omega": 0.5, "G0": 1.0, "Tdust": 10.0, "zeta_cr": 1.3e-17, "zeta_xr": 0.0, "rG": 1e-5, "gdens": 1e-8}
        grid = [dict({k: v for k, v in base.items() if k in fields}, Tgas=T) for T in temps]
        res = RR.build_and_run(files, grid, solver=solver)
        if res.get("compile_error"):
            first = next((ln for ln in res["compile_error"].splitlines() if "error" in ln), "")
            return len(kept), viols + [(f"C06:compile-error:{fmt}", first[:300], {"fmt": fmt, "backend": backend})], 0
        if res.get("run_error"):
            raise HarnessError(res["run_error"])
        nval = 0
        groups = {}
        for i, (label, (lo, hi), g) in enumerate(kept):
            groups.setdefault(g, []).append(i)
            ref_on = None
            for ti, T in enumerate(temps):
                got = res["k"][ti][i]
                exp_active = active(lo, hi, T)
                nval += 1
                if fmt == "uclchem-freeze":
                    # law value is not constant here: only zero / non-zero is judged
                    ok = (got != 0.0) == exp_active
                elif label.startswith("diverging/"):
                    ok = True if exp_active else (got == 0.0 and math.copysign(1, got) > 0)
                else:
                    ok = (got == K) if exp_active else (got == 0.0 and math.copysign(1, got) > 0)
                if not ok:
                    where = "at-tmin" if T == lo else "at-tmax" if T == hi else "inside" if exp_active else "outside"
                    viols.append(
                        (
                            f"C06:window:{fmt}:{where}",
                            f"{fmt} '{label}' window [{lo},{hi}) at T={T!r}: k={got!r}, expected {'law value' if exp_active else 'exactly 0.0'}; statement: {stmts[i]['stmt'][:120]}",
                            {"fmt": fmt, "label": label, "window": [lo, hi], "T": T, "backend": backend},
                        )
                    )
                    break
        # adjacent pieces: exactly one active at every T above the lowest bound
        for g, idxs in groups.items():
            if len(idxs) < 2:
                continue
            lows = [kept[i][1][0] for i in idxs]
            his = [kept[i][1][1] for i in idxs]
            lo_all = min(lows)
            hi_all = 0 if any(h <= 0 for h in his) else max(his)
            for ti, T in enumerate(temps):
                if (lo_all > 0 and T < lo_all) or (hi_all > 0 and T >= hi_all):
                    continue
                n_on = sum(1 for i in idxs if res["k"][ti][i] != 0.0)
                nval += 1
                if n_on != 1:
                    viols.append((f"C06:adjacent:{fmt}", f"{fmt} '{kept[idxs[0]][0]}': {n_on} pieces active at T={T!r}", {"fmt": fmt, "label": kept[idxs[0]][0], "T": T}))
                    break
        return len(kept), viols, nval
    finally:
        shutil.rmtree(tmp, ignore_errors=True)


SEQ_T = [5.0, 150.0, 299.999, 300.0, 999.0, 1000.0, 2000.0, 50.0, 5.0, 300.0, 1e4, 150.0]


def run_sequence(backend):
    """History check: the compiled Fex/Jac are called repeatedly *in one process* while the temperature walks
    into and out of the windows; a reaction that was active once must be inactive again outside its window
    (the rate buffer has to start from zero on every call)."""
    from ..harness import oderun as OR
    from ..harness.render import render, reset_globals, quiet

    reset_globals()
    from naunet.network import Network
    from naunet.reactions.reaction import Reaction
    from naunet.reactiontype import ReactionType

    with quiet():
        net = Network(
            [
                Reaction(["H", "H"], ["H2"], 10.0, 300.0, 2.0, 0.0, 0.0, ReactionType.GAS_TWOBODY, 1),
                Reaction(["H", "H"], ["H2"], 300.0, 1000.0, 3.0, 0.0, 0.0, ReactionType.GAS_TWOBODY, 2),
                Reaction(["H2"], ["H", "H"], -1.0, -1.0, 0.5, 0.0, 0.0, ReactionType.GAS_TWOBODY, 3),
            ]
        )
        files = render(net, backend, OR.TEMPLATES_ODEINT if backend == "rosenbrock4" else OR.TEMPLATES_CVODE)
    from ..ctext.stmts import read_macros

    m = read_macros(files["include/naunet_macros.h"])
    ih, ih2 = m.value("IDX_HI"), m.value("IDX_H2I")
    y = [0.0, 0.0]
    y[ih], y[ih2] = 1.0, 1.0
    params = [{"nH": 1e4, "Tgas": T, "zeta": 1.3e-17, "Av": 1.0, "omega": 0.5} for T in SEQ_T]
    res = OR.build_and_run(files, backend, [list(y) for _ in SEQ_T], params, sanitize=False)
    if "error" in res:
        raise HarnessError(f"C06 sequence harness [{backend}]: {res}")
    viols = []
    n = 0
    for T, r in zip(SEQ_T, res["runs"]):
        k1 = 2.0 if 10.0 <= T < 300.0 else 0.0
        k2 = 3.0 if 300.0 <= T < 1000.0 else 0.0
        exp_h2 = (k1 + k2) * 1.0 - 0.5 * 1.0
        exp_j = 2 * (k1 + k2) * 1.0
        n += 2
        if not (abs(r["ydot"][ih2] - exp_h2) <= 1e-12 and abs(r["jac"].get((ih2, ih), 0.0) - exp_j) <= 1e-12):
            viols.append((f"C06:sequence:{backend}", f"{backend}: after the temperature walk {SEQ_T[:SEQ_T.index(T)+1] if T in SEQ_T else SEQ_T} the compiled Fex gives dH2/dt={r['ydot'][ih2]!r} (window predicate: {exp_h2!r}), Jac d/dH={r['jac'].get((ih2, ih), 0.0)!r} (expected {exp_j!r})", {"sequence": True, "backend": backend}))
            break
    return n, viols


TYPE_WINDOWS = [(10.0, 300.0), (50.0, -1.0), (-1.0, 41000.0)]


def run_types(fmt):
    """every gas-phase reaction TYPE of every format with a declared window (databases give one to cosmic-ray and
    photo-reactions too: RATE12's CP lines carry 10:41000): the compiled coefficient is non-zero inside and exactly
    0.0 outside.  Laws are not constant here, so only zero / non-zero is judged."""
    import shutil
    import tempfile
    from pathlib import Path

    from ..harness.render import render, reset_globals, scratch, quiet
    from ..harness import ratesrun as RR

    reset_globals()
    from naunet.network import Network
    from naunet.reactions.reaction import Reaction
    from naunet.reactiontype import ReactionType

    types = [t for t in c05.TYPES if t[0] == fmt and t[2] != "zero"]
    tmp = Path(tempfile.mkdtemp(dir=scratch()))
    kept = []
    try:
        kw = {}
        if fmt == "api":
            reacs = []
            for t in types:
                _, code, law, marker, reac, prod, tag = t
                for lo, hi in TYPE_WINDOWS:
                    reacs.append(Reaction(list(reac) + ([marker] if marker else []), list(prod), lo, hi, 2.0, 1.0, 1.0, ReactionType(code), len(reacs) + 1))
                    kept.append((t, lo, hi))
            with quiet():
                net = Network(reacs)
        else:
            lines = []
            for t in types:
                _, code, law, marker, reac, prod, tag = t
                for lo, hi in TYPE_WINDOWS:
                    if fmt in ("kida", "leeds"):
                        lo, hi = int(lo), int(hi)
                    ln = c05.encode(fmt, code, marker, reac, prod, 2.0, 1.0, 1.0, len(lines) + 1, lo, hi)
                    if ln is None:
                        continue
                    lines.append(ln)
                    kept.append((t, float(lo), float(hi)))
            f = tmp / f"types.{fmt}"
            f.write_text("\n".join(lines) + "\n")
            if fmt == "leeds":
                kw["species_kwargs"] = {"surface_prefix": "G"}
            if fmt in ("leeds", "uclchem"):
                kw["required_species"] = ["CO", "H2"]
            with quiet():
                net = Network(filelist=str(f), fileformats=fmt, **kw)
            if len(net.reaction_list) != len(lines):
                return 0, [(f"C06:pack-size:{fmt}", f"{len(lines)} data lines gave {len(net.reaction_list)} reactions", {"fmt": fmt, "types": True})]
        files = render(net, "dense", RR.RATE_TEMPLATES_CVODE)
        temps = sorted(set().union(*[temps_for([(lo, hi)]) for lo, hi in TYPE_WINDOWS]) - {1e-300, 1e300})
        fields = [f_ for f_, _ in RR.data_fields(files)]
        base = {"nH": 1e4, "zeta": 1.3e-17, "Av": 1.0, "omega": 0.5, "G0": 1.0, "Tdust": 10.0, "zeta_cr": 1.3e-17, "zeta_xr": 0.0, "rG": 1e-5, "gdens": 1e-8, "uvcreff": 1e-3, "crdeseff": 1e5, "h2deseff": 1e-2}
        grid = [dict({k: v for k, v in base.items() if k in fields}, Tgas=T) for T in temps]
        for g in grid:
            for fld in fields:
                g.setdefault(fld, 1.0)
        res = RR.build_and_run(files, grid)
        if res.get("compile_error"):
            first = next((ln for ln in res["compile_error"].splitlines() if "error" in ln), "")
            return len(kept), [(f"C06:compile-error:{fmt}", first[:300], {"fmt": fmt, "types": True})]
        if res.get("run_error"):
            raise HarnessError(res["run_error"])
        viols = []
        n = 0
        for i, (t, lo, hi) in enumerate(kept):
            for ti, T in enumerate(temps):
                got = res["k"][ti][i]
                n += 1
                on = active(lo, hi, T)
                if (on and not (got != 0.0 and got == got)) or (not on and not (got == 0.0)):
                    viols.append((f"C06:type-window:{fmt}:{t[1]}:{'inside' if on else 'outside'}", f"{fmt} type {t[1]} ({t[2]}) with window [{lo},{hi}) at T={T!r}: k={got!r}, expected {'a non-zero coefficient' if on else 'exactly 0.0'}", {"fmt": fmt, "types": True}))
                    break
        return n, viols
    finally:
        shutil.rmtree(tmp, ignore_errors=True)


def run(ctx):
    cases = build_cases(ctx.tier)
    total = nval = 0
    backends = ["dense"] if ctx.tier == "quick" else ["dense", "rosenbrock4"]
    for n, viols, nv in ctx.pmap(run_fmt, [(f, c, b) for f, c in cases.items() for b in backends]):
        total += n
        nval += nv
        ctx.absorb(viols)
    for n, viols in ctx.pmap(run_sequence, ["dense", "sparse", "rosenbrock4"]):
        nval += n
        ctx.absorb(viols)
    ntypes = 0
    for n, viols in ctx.pmap(run_types, ["kida", "umist", "leeds", "uclchem", "naunet", "api"]):
        ntypes += n
        nval += n
        ctx.absorb(viols)
    ctx.assumptions += [
        "type sub-check: every gas-phase (format, type) of C05's table with windows [10,300), [50,inf), (-inf,41000): compiled coefficient non-zero inside, exactly 0.0 outside (coefficients alpha=2, beta=gamma=1)",
        "history sub-check: compiled Fex and Jac of all three CPU back-ends are called 12 times in one process along a temperature walk that enters and leaves adjacent windows; every call must obey the window predicate",
        "every probe reaction has the constant law k=2.0; active <=> compiled k == 2.0, inactive <=> compiled k is +0.0 (k pre-set to the template's {0.0} initialiser, whose presence in Fex/Jac is checked by C03)",
        "window predicate of the property: (Tmin<=0 or T>=Tmin) and (Tmax<=0 or T<Tmax); KROME comparison operators (.LE./.GE./</>) are read as plain bounds",
        "temperatures: each bound, its two neighbouring doubles, half, double, mid-point, 1e-300, 1e300 - the union over the pack is applied to every reaction",
    ]
    return {
        "evaluations": nval,
        "distinct_nontrivial": total,
        "rule": "window shapes (none, 0/0, lower only, upper only, both, adjacent pieces, inexact/tiny/huge bounds) x every spelling each of the 6 formats + API offers; distinct = (format, shape, spelling, piece); all are non-trivial (a real reaction evaluated by compiled code)",
        "samples": [{"format": f, "label": c[0][0], "window": c[0][2]} for f, c in cases.items()],
        "formats": {f: len(c) for f, c in cases.items()},
        "exhaustive": True,
    }


def replay(ctx, case):
    if case.get("types"):
        ctx.absorb(run_types(case["fmt"])[1])
        return
    if case.get("sequence"):
        n, v = run_sequence(case["backend"])
        ctx.absorb(v)
        return
    cases = build_cases("thorough")
    fmt = case["fmt"]
    n, viols, nv = run_fmt((fmt, cases[fmt], case.get("backend", "dense")))
    ctx.absorb(viols)
