"""C17 - code generation is a deterministic function of the network description.

Stateless, complete exploration of every interleaving of several sequential
'client programs' (atomic public API calls) that share naunet's process-global
tables; every schedule runs in a fresh process; the oracle is differential: every
render(X) must hash to the reference hash of X rendered alone in a fresh process
(which must itself agree across interpreter hash seeds and repeated renders)."""
from __future__ import annotations

import hashlib
import itertools
import json
import os
import re
import shutil
import subprocess
import sys
import tempfile
from pathlib import Path

from ..core.runner import HarnessError, REPO, VERIF, guarded
from ..ref import formats as F
from . import c05

LEVEL = "model_checking"

CLIENTS = ["A", "B", "C", "D", "F", "G", "K"]
PROGRAMS = {
    "P1": ["build", "render"],
    "P2": ["build", "render", "render"],
    "P3": ["build", "edit", "where", "render"],
    "P4": ["cli_render"],
    "P5": ["build", "render", "edit", "where", "render"],  # reference runs only: rendering before an edit must not matter
    "P7": ["build", "edit", "render"],  # reference runs only: the read-only probes of P3 must not matter
    "P8": ["build", "export"],  # client E only: Network.export (writes reactions, configuration and sources)
    "P6": ["build", "render_odeint", "render_pattern", "render"],  # reference runs only: another back-end / the pattern option in between must not matter
}


# ---- client material (files are written into a per-process work directory) ---------------
def materials(work: Path):
    work.mkdir(parents=True, exist_ok=True)
    # A: KIDA, default element lists
    a = work / "a.kida"
    a.write_text(
        "\n".join(
            [
                F.enc_kida(F.AReaction(["C", "CH"], ["H", "C2"], 2.4e-10, 0.0, 0.0, 10, 300, 1, 3)),
                F.enc_kida(F.AReaction(["H", "C2"], ["C", "CH"], 4.67e-10, 0.5, 30400.0, 10, 800, 2, 3)),
                F.enc_kida(F.AReaction(["He"], ["He+", "e-"], 0.5, 0.0, 0.0, -9999, 9999, 3, 1, "CR")),
            ]
        )
        + "\n"
    )
    # B: UCLCHEM project only reachable through RenderCommand (replacement, binding energy, yield)
    bdir = work / "B"
    bdir.mkdir(exist_ok=True)
    (bdir / "b.ucl").write_text(
        "\n".join(
            [
                "HE,CRP,NAN,HE+,E-,NAN,NAN,0.5,0.0,0.0,10,41000",
                "CO,FREEZE,NAN,#CO,NAN,NAN,NAN,1.0,0.0,0.0,0.0,10000.0",
                "#CO,THERM,NAN,CO,NAN,NAN,NAN,1.0,0.0,0.0,0.0,10000.0",
                "#CO,DEUVCR,NAN,CO,NAN,NAN,NAN,1.0,0.0,0.0,0.0,10000.0",
                "H2,PHOTON,NAN,H,H,NAN,NAN,1e-10,0.0,2.5,10,41000",
                "SI,H2,NAN,SIH,H,NAN,NAN,1e-10,0.0,0.0,10,41000",
            ]
        )
        + "\n"
    )
    from naunet.configuration import BaseConfiguration

    cfg = BaseConfiguration(
        "proj",
        element=["E", "H", "D", "HE", "C", "N", "O", "MG", "SI", "S", "CL"],
        pseudo_element=["CR", "CRP", "PHOTON", "CRPHOT"],
        replacement={"E": "e", "HE": "He", "MG": "Mg", "SI": "Si", "CL": "Cl"},
        species_kwargs={"grain_symbol": "GRAIN", "surface_prefix": "#", "bulk_prefix": "@"},
        binding_energy={"#CO": 1234.0},
        photon_yield={"#CO": 2.5e-3},
        filenames=["b.ucl"],
        formats=["uclchem"],
        grain_model="rr07x",
        solver="cvode",
        device="cpu",
        method="dense",
    )
    txt = cfg.content
    txt = re.sub(r'creation_time = "[^"]*"', 'creation_time = "masked"', txt)
    (bdir / "naunet_config.toml").write_text(txt)
    # C: Leeds, prefix G, custom element / pseudo-element lists
    c = work / "c.leeds"
    c.write_text(
        "\n".join(
            [
                c05.encode("leeds", 1, None, ["H", "OH"], ["H2O"], 1e-10, 0.0, 0.0, 1, 5, 41000),
                c05.encode("leeds", 7, None, ["CO"], ["GCO"], 1.0, 0.0, 0.0, 2, 5, 41000),
                c05.encode("leeds", 8, None, ["GCO"], ["CO"], 1.0, 0.0, 1150.0, 3, 5, 41000),
                c05.encode("leeds", 2, None, ["H2", "CRP"], ["H", "H"], 1.0, 0.0, 0.0, 4, 5, 41000),
            ]
        )
        + "\n"
    )
    # D: KROME with directives
    d = work / "d.krome"
    d.write_text(
        "\n".join(
            [
                "@format:idx,R,R,P,P,Tmin,Tmax,rate",
                "@common: user_crate",
                "@var: foo = Tgas*2.0",
                "1,H,H,H2,,NONE,NONE,1.0d-10*(T32)**(-0.5)*exp(-3.0d1*invT)",
                "2,H2,,H,H,10,1d4,user_crate*2d0*foo",
            ]
        )
        + "\n"
    )
    # G: upper-case element list *without* replacement table (aliases are normalised HE -> He by Species.alias)
    g = work / "g.kida"
    g.write_text(
        "\n".join(
            [
                F.enc_kida(F.AReaction(["HE+", "O"], ["HE", "O+"], 1e-15, 0.0, 30000.0, 10, 800, 1, 3)),
                F.enc_kida(F.AReaction(["HE+", "E"], ["HE"], 1e-11, -0.5, 0.0, 10, 800, 2, 3)),
                F.enc_kida(F.AReaction(["HE+", "H"], ["HE", "H+"], 1e-15, 0.0, 0.0, 10, 800, 3, 3)),
            ]
        )
        + "\n"
    )
    # ... and a second file G reads into its network later (its edit step)
    g2 = work / "g2.kida"
    g2.write_text(F.enc_kida(F.AReaction(["HE+", "C"], ["HE", "C+"], 1.6e-9, 0.0, 0.0, 10, 800, 4, 3)) + "\n")
    # K: a second KROME file that relies on the *default* column layout (no @format) and has its own @common
    k = work / "k.krome"
    k.write_text(
        "\n".join(
            [
                "@common: user_other",
                "1,H,H+,,H2+,,,,NONE,NONE,1.0d-10",
                "2,H2+,H,,H2,H+,,,NONE,NONE,6.4d-10*user_other",
            ]
        )
        + "\n"
    )
    return {"A": str(a), "B": str(bdir), "C": str(c), "D": str(d), "G": str(g), "G2": str(g2), "K": str(k)}


def client_build(c, mat):
    from naunet.network import Network
    from naunet.reactions.reaction import Reaction
    from naunet.reactiontype import ReactionType

    if c == "A":
        # (four cooling processes, named in an order that is not alphabetical: their numbering is part of the sources)
        return Network(filelist=mat["A"], fileformats="kida", cooling=["RC_HeII", "CIC_HeI", "CEC_HeII", "CIC_HeII"])
    if c == "C":
        return Network(
            filelist=mat["C"],
            fileformats="leeds",
            elements=["e", "H", "He", "C", "O", "Q"],
            pseudo_elements=["CRP", "CRPHOT", "PHOTON", "XRAY", "M"],
            species_kwargs={"surface_prefix": "G"},
            grain_model="hh93",
        )
    if c == "D":
        return Network(filelist=mat["D"], fileformats="krome")
    if c == "K":
        return Network(filelist=mat["K"], fileformats="krome")
    if c == "G":
        # an element list of its own and nothing else (no marker list), like the bundled minimal example
        return Network(filelist=mat["G"], fileformats="kida", elements=["E", "H", "HE", "C", "O"])
    if c == "E":
        # an API-built ice network whose user measured another binding energy for #CO and says so on the species
        ra = [
            Reaction(["CO"], ["#CO"], -1.0, -1.0, 1.0, 0.0, 0.0, ReactionType.GRAIN_FREEZE),
            Reaction(["#CO"], ["CO"], -1.0, -1.0, 1.0, 0.0, 0.0, ReactionType.GRAIN_DESORB_THERMAL),
            Reaction(["H", "H"], ["H2"], 10.0, 41000.0, 1e-17, 0.5, 0.0, ReactionType.GAS_TWOBODY),
        ]
        for r_ in ra:
            for s_ in r_.reactants + r_.products:
                if s_.name == "#CO":
                    s_.binding_energy = 2000.0
        return Network(ra, grain_model="hh93")
    if c == "F":
        return Network(
            [
                # no index information: rendering numbers the reactions itself; the rate modifier addresses the third one
                Reaction(["CO"], ["#CO"], -1.0, -1.0, 1.0, 0.0, 0.0, ReactionType.GRAIN_FREEZE),
                Reaction(["#CO"], ["CO"], -1.0, -1.0, 1.0, 0.0, 0.0, ReactionType.GRAIN_DESORB_THERMAL),
                Reaction(["H", "H"], ["H2"], -1.0, -1.0, 1e-17, 0.0, 0.0, ReactionType.GAS_TWOBODY),
            ],
            grain_model="hh93",
            rate_modifier={2: "3e-17 * sqrt(Tgas / 300.0)"},
            ode_modifier={"H2": {"factors": ["-hloss", "0.5 * gform"], "reactants": [["H2"], ["H", "H"]]}, "H": {"factors": ["gform"], "reactants": [["H"]]}},
        )
    raise HarnessError(c)


def client_edit(c, net, mat):
    from naunet.reactions.reaction import Reaction
    from naunet.reactiontype import ReactionType

    if c == "G":
        # a second file read into the existing network: the network's own lists apply to it, whoever ran in between
        try:
            net.add_reaction_from_file(mat["G2"], "kida")
        except Exception as e:
            raise RuntimeError(f"[add_reaction_from_file] {type(e).__name__}: {e}") from e

    extra = {"G": (["HE", "H+"], ["HE+", "H"]), "A": (["C2", "H"], ["CH", "C"]), "C": (["H2O", "CRP"], ["OH", "H"]), "D": (["H", "H2"], ["H2", "H"]), "K": (["H2", "H+"], ["H2+", "H"]), "F": (["H2", "CR"], ["H", "H"])}[c]
    t = ReactionType.GAS_COSMICRAY if ("CR" in extra[0] or "CRP" in extra[0]) else ReactionType.GAS_TWOBODY
    net.add_reaction(Reaction(list(extra[0]), list(extra[1]), -1.0, -1.0, 1e-10, 0.0, 0.0, t, 77))
    net.required_species = [s.name for s in net.required_species] + ["O"]  # a species no reaction of any client mentions
    net.allowed_species = [s.name for s in sorted(net.species, key=lambda s: s.name)]
    if c == "F":
        # the dust model is a setting of the network like any other: rates rendered before the change must not survive it
        net.grain_model = "rr07x"
    if c in ("A", "F"):
        # shielding functions are chosen on the table the accessor hands out (there is no setter): one network's choice
        net.shielding["H2" if c == "A" else "CO"] = "L96Table" if c == "A" else "VB88Table"


def tree_hash(root: Path):
    h = hashlib.sha256()
    n = 0
    for sub in ("include", "src", "python"):
        for p in sorted((root / sub).rglob("*")):
            if p.is_file():
                data = p.read_text(errors="replace")
                data = data.replace("pyproj", "py<name>").replace("pynaunet", "py<name>")
                h.update(str(p.relative_to(root)).encode())
                h.update(b"\0")
                h.update(data.encode())
                n += 1
    return h.hexdigest()[:20], n


def do_render(c, net, work, solver=("cvode", "dense", "cpu"), pattern=False):
    from ..harness.render import BACKENDS, template_loader, quiet

    out = Path(tempfile.mkdtemp(dir=work))
    try:
        from naunet.templateloader import TemplateLoader

        tl = TemplateLoader(*solver)
        tl.render("proj", net, path=out, save=True, jac_pattern=pattern)
        return tree_hash(out)[0]
    finally:
        shutil.rmtree(out, ignore_errors=True)


def do_cli_render(c, mat, work):
    from ..harness.cli import run_command

    proj = Path(tempfile.mkdtemp(dir=work)) / "proj"
    shutil.copytree(mat["B"], proj)
    try:
        st, o, err, exc = run_command("render", "--force", proj)
        if exc is not None:
            return f"EXC:{type(exc).__name__}:{exc}"[:200]
        return tree_hash(proj)[0]
    finally:
        shutil.rmtree(proj.parent, ignore_errors=True)


def globals_snapshot():
    from naunet import chemistrydata
    from naunet.species import Species

    return hashlib.sha1(
        repr((list(Species._known_elements), list(Species._known_pseudoelements), sorted(Species._replacement.items()), sorted(chemistrydata.user_binding_energy.items()), sorted(chemistrydata.user_photon_yield.items()))).encode()
    ).hexdigest()[:8]


def run_schedule(arg):
    """schedule: list of (client index, step name); progs: [(client, program)]  -> observations"""
    progs, schedule, workroot = arg
    import logging

    logging.disable(logging.CRITICAL)
    from ..harness.render import quiet

    work = Path(tempfile.mkdtemp(dir=workroot))
    obs = []
    gl = set()
    try:
        with quiet():
            mat = materials(work / "mat")
            nets = {}
            for pos, (ci, stepname) in enumerate(schedule):
                c = progs[ci][0]
                edited = "edit" in [s_ for (cj, s_) in schedule[:pos] if cj == ci]
                try:
                    if stepname == "build":
                        nets[ci] = client_build(c, mat)
                    elif stepname == "edit":
                        client_edit(c, nets[ci], mat)
                    elif stepname == "where":
                        # the "read-only" public entry points: none of them may leave anything behind, whether it
                        # succeeds or raises for this client's network
                        nets[ci].where_species("H")
                        for probe in (
                            lambda: nets[ci].find_duplicate_reaction(mode="short"),
                            lambda: nets[ci].find_source_sink(),
                            lambda: nets[ci].write(work / f"w{ci}.naunet", "naunet"),
                            lambda: __import__("naunet.patches", fromlist=["EnzoPatch"]).EnzoPatch("cpu").render(nets[ci], templates=["naunet_enzo.h.j2"], path=work / f"enzo{ci}"),
                        ):
                            try:
                                probe()
                            except Exception:
                                pass
                    elif stepname == "render":
                        gl.add(globals_snapshot())
                        obs.append((c, "edited" if edited else "plain", do_render(c, nets[ci], work)))
                    elif stepname == "render_odeint":
                        obs.append((c, "odeint", do_render(c, nets[ci], work, ("odeint", "rosenbrock4", "cpu"))))
                    elif stepname == "render_pattern":
                        obs.append((c, "sparse+pattern", do_render(c, nets[ci], work, ("cvode", "sparse", "cpu"), True)))
                    elif stepname == "export":
                        gl.add(globals_snapshot())
                        nets[ci].export("proj", prefix=work / f"export{ci}", overwrite=True) if (work / f"export{ci}").mkdir(parents=True, exist_ok=True) is None else None
                        obs.append((c, "export", tree_hash(work / f"export{ci}" / "proj")[0]))
                    elif stepname == "cli_render":
                        gl.add(globals_snapshot())
                        obs.append((c, "cli", do_cli_render(c, mat, work)))
                except Exception as e:
                    obs.append((c, "cli" if stepname == "cli_render" else "export" if stepname == "export" else "edited" if (edited or stepname == "edit") else "plain", f"EXC@{stepname}:{type(e).__name__}:{str(e)[:120]}"))
                    break
    finally:
        shutil.rmtree(work, ignore_errors=True)
    return {"progs": progs, "schedule": schedule, "obs": obs, "globals": sorted(gl)}


CUSTOM_LISTS = ("B", "C", "G")  # clients that install their own element / pseudo-element lists


def victim_class(c):
    return "cli" if c == "B" else "custom-lists" if c in CUSTOM_LISTS else "default-lists"


def culprits(r, c, kind, h=""):
    """root-cause tag: which earlier client's global writes reached the victim"""
    progs = r["progs"]
    vi = next(i for i, p in enumerate(progs) if p[0] == c)
    last = max(i for i, (ci, st) in enumerate(r["schedule"]) if ci == vi and st in ("render", "cli_render", "build", "export"))
    if h.startswith("EXC@"):
        # the victim raised at this step: only clients that ran before it can be the cause
        failed = h[4:].split(":", 1)[0]
        idxs = [i for i, (ci, st) in enumerate(r["schedule"]) if ci == vi and st == failed]
        if idxs:
            last = idxs[0]
    before = [progs[ci][0] for ci, st in r["schedule"][:last] if ci != vi]
    custom = [x for x in before if x in CUSTOM_LISTS]
    if h.startswith("EXC") and "[add_reaction_from_file]" in h:
        # not the Reaction-built-outside-the-network mechanism of the open finding: a file read BY the network
        return f"add-from-file-under-element-lists-of-{custom[-1] if custom else '+'.join(sorted(set(before)))}"
    if h.startswith("EXC") and ("Unrecongnized name" in h or "unrecognizable" in h) and custom:
        return f"element-lists-of-{custom[-1]}"
    if not h.startswith("EXC") and "B" in before and c == "F":
        return "binding-energy-table-of-B"
    if not h.startswith("EXC") and custom and c in CUSTOM_LISTS:
        # lazily computed aliases (HE -> He normalisation) are taken under whatever lists are installed at render time
        return f"alias-under-element-lists-of-{custom[-1]}"
    return "with-" + "+".join(sorted(set(before)))


def interleavings(seqs):
    """all interleavings of the given step sequences, as lists of (seq index, step)"""
    if all(not s for s in seqs):
        yield []
        return
    for i, s in enumerate(seqs):
        if s:
            rest = [x if j != i else x[1:] for j, x in enumerate(seqs)]
            for tail in interleavings(rest):
                yield [(i, s[0])] + tail


def schedules(tier):
    out = []
    progs_for = {c: (["P1", "P2", "P3"] if c != "B" else ["P4"]) for c in CLIENTS}
    if tier == "quick":
        progs_for = {c: (["P1", "P3"] if c != "B" else ["P4"]) for c in CLIENTS}
        maxlen = 6
    else:
        maxlen = 7
    for n in (2, 3):
        if tier == "quick" and n == 3:
            continue
        for cs in itertools.permutations(CLIENTS, n):
            if list(cs) != sorted(cs):
                continue  # the interleavings already contain every order of the same client set
            for ps in itertools.product(*[progs_for[c] for c in cs]):
                seqs = [PROGRAMS[p] for p in ps]
                if sum(len(s) for s in seqs) > maxlen:
                    continue
                progs = [(c, p) for c, p in zip(cs, ps)]
                for il in interleavings(seqs):
                    out.append((progs, il))
    # client E exports its network (own binding energy on #CO) around every other client's plain program
    for v in CLIENTS:
        progs = [("E", "P8"), (v, "P4" if v == "B" else "P1")]
        for il in interleavings([PROGRAMS[p] for _, p in progs]):
            out.append((progs, il))
    return out


# ---- child mode: run a batch of schedules, each in a fresh fork of this pristine process ----
def child_main(batch_file, out_file):
    import multiprocessing as mp

    data = json.loads(Path(batch_file).read_text())
    workroot = data["workroot"]
    items = [([tuple(p) for p in progs], [tuple(s) for s in sched], workroot) for progs, sched in data["schedules"]]
    res = []
    with mp.get_context("fork").Pool(data["workers"], maxtasksperchild=1) as pool:
        for r in pool.imap_unordered(guarded(run_schedule), items, chunksize=1):
            res.append(r)
    Path(out_file).write_text(json.dumps(res))


def run_batch(scheds, seed, workers, workroot):
    bf = Path(workroot) / f"batch_{seed}.json"
    of = Path(workroot) / f"out_{seed}.json"
    bf.write_text(json.dumps({"schedules": scheds, "workers": workers, "workroot": str(workroot)}))
    env = dict(os.environ)
    env["PYTHONHASHSEED"] = str(seed)
    nr = os.environ.get("NAUNET_REPO")
    env["PYTHONPATH"] = (f"{nr}:" if nr and nr != "/repo" else "") + f"{VERIF}:{VERIF}/vendor"
    env["TQDM_DISABLE"] = "1"
    p = subprocess.run([sys.executable, "-m", "mc.props.c17", str(bf), str(of)], env=env, capture_output=True, text=True, timeout=3600, cwd=str(VERIF))
    if p.returncode != 0:
        raise HarnessError(f"schedule batch failed: {p.stderr[-2000:]}")
    return json.loads(of.read_text())


def run(ctx):
    workroot = ctx.scratch / "c17"
    workroot.mkdir(parents=True, exist_ok=True)
    seeds = sorted({0, 1, 2, ctx.seed % 1000 + 3})
    # --- reference hashes: each client alone, fresh process, several hash seeds, render twice
    ref_scheds = []
    for c in CLIENTS:
        if c == "B":
            ref_scheds.append(([("B", "P4")], [(0, "cli_render")]))
        else:
            ref_scheds.append(([(c, "P2")], [(0, "build"), (0, "render"), (0, "render")]))
            ref_scheds.append(([(c, "P3")], [(0, "build"), (0, "edit"), (0, "where"), (0, "render")]))
            ref_scheds.append(([(c, "P5")], [(0, "build"), (0, "render"), (0, "edit"), (0, "where"), (0, "render")]))
            ref_scheds.append(([(c, "P6")], [(0, "build"), (0, "render_odeint"), (0, "render_pattern"), (0, "render")]))
            ref_scheds.append(([(c, "P7")], [(0, "build"), (0, "edit"), (0, "render")]))
    ref_scheds.append(([("E", "P8")], [(0, "build"), (0, "export")]))
    ref = {}
    nexec = 0
    for s in seeds:
        for r in run_batch(ref_scheds, s, min(ctx.workers, 8), workroot):
            nexec += 1
            for (c, kind, h) in r["obs"]:
                key = (c, kind)
                if h.startswith("EXC"):
                    ctx.violation(f"C17:reference-raises:{c}:{kind}", f"client {c} ({kind}) alone in a fresh process raises: {h}", {"progs": r["progs"], "schedule": r["schedule"], "seed": s})
                    continue
                if key in ref and ref[key] != h:
                    which = "hash-seed" if len({x for x in [ref[key], h]}) > 1 else "?"
                    ctx.violation(f"C17:alone:{c}:{kind}:differs", f"client {c} ({kind}) rendered alone gives different sources ({ref[key]} vs {h}) across hash seeds {seeds} / repeated renders", {"progs": r["progs"], "schedule": r["schedule"], "seed": s})
                ref.setdefault(key, h)
    # --- all interleavings
    scheds = schedules(ctx.tier)
    explore_seeds = [0] if ctx.tier == "quick" else [0, seeds[-1]]
    outcomes = {}
    globals_seen = set()
    nsched = 0
    for s in explore_seeds:
        for r in run_batch(scheds, s, ctx.workers, workroot):
            nsched += 1
            globals_seen.update(r["globals"])
            for (c, kind, h) in r["obs"]:
                outcomes.setdefault((c, kind), set()).add(h)
                exp = ref.get((c, kind))
                if exp is None:
                    continue
                if h != exp:
                    tag = culprits(r, c, kind, h)
                    what = "raises" if h.startswith("EXC") else "differs"
                    ctx.violation(
                        f"C17:interleaved:{victim_class(c)}:{what}:{tag}",
                        f"schedule {r['schedule']} of {r['progs']} (hash seed {s}): render of {c} gives {h}, alone in a fresh process {exp}",
                        {"progs": r["progs"], "schedule": r["schedule"], "seed": s},
                    )
    ctx.assumptions += [
        "scheduling points are public API call boundaries (the library is single-threaded); every schedule runs in a fresh process forked from a parent that never touched a naunet global",
        "hash = sha256 over include/ src/ python/ with the project name masked (the only embedded date lives in the top-level CMakeLists.txt, outside the hashed trees)",
        "reference hash of a client = rendering it alone in fresh processes under several PYTHONHASHSEED values, twice in a row; these must agree among themselves",
        "clients: A KIDA/default lists with four cooling processes; B UCLCHEM project through RenderCommand (upper-case elements, replacement table, binding energy and yield of #CO); C Leeds with custom element lists and prefix G; D KROME with its own @format/@var/@common; K a second KROME file relying on the default column layout with another @common; F API-built ice network reading #CO's binding energy; E API-built ice network whose #CO species carries a user-set binding energy (2000 K) and which is EXPORTED (Network.export: reactions, configuration, sources) around every other client's plain program; G KIDA file with an upper-case element list only (no marker list, no replacement table), whose edit step first reads a second file into the network",
    ]
    return {
        "states": nsched + nexec,
        "transitions": sum(len(s[1]) for s in scheds) * len(explore_seeds),
        "traces_validated_against_impl": nsched + nexec,
        "samples": [{"progs": p, "schedule": s} for p, s in scheds[:: max(1, len(scheds) // 5)][:5]],
        "evaluations": nsched + nexec,
        "distinct_nontrivial": len(scheds),
        "rule": "every interleaving of the step sequences of every pair (thorough: and triple) of distinct clients x program assignments with total length <= 6 (quick, programs P1/P3/P4) / 7 (thorough); stateless (no state merging); each schedule executed on the real code in a fresh process; thorough repeats the exploration under a second interpreter hash seed",
        "schedules": len(scheds),
        "hash_seeds_reference": seeds,
        "hash_seeds_exploration": explore_seeds,
        "distinct_outcomes_per_client": {f"{c}:{k}": len(v) for (c, k), v in sorted(outcomes.items())},
        "distinct_global_table_contents_at_render": len(globals_seen),
        "exhaustive": True,
    }


def replay(ctx, case):
    workroot = ctx.scratch / "c17"
    workroot.mkdir(parents=True, exist_ok=True)
    progs = [tuple(p) for p in case["progs"]]
    sched = [tuple(s) for s in case["schedule"]]
    r1 = run_batch([(progs, sched)], case.get("seed", 0), 1, workroot)[0]
    r2 = run_batch([(progs, sched)], case.get("seed", 0), 1, workroot)[0]
    if r1["obs"] != r2["obs"]:
        raise HarnessError("replaying the same schedule twice gave different observations")
    # reference
    for (c, kind, h) in r1["obs"]:
        if c == "B":
            rs = ([("B", "P4")], [(0, "cli_render")])
        elif kind == "edited":
            rs = ([(c, "P3")], [(0, "build"), (0, "edit"), (0, "where"), (0, "render")])
        else:
            rs = ([(c, "P1")], [(0, "build"), (0, "render")])
        ref = run_batch([rs], case.get("seed", 0), 1, workroot)[0]["obs"][-1][2]
        if h != ref:
            tag = culprits({"progs": progs, "schedule": sched}, c, kind, h)
            what = "raises" if h.startswith("EXC") else "differs"
            ctx.violation(f"C17:interleaved:{victim_class(c)}:{what}:{tag}", f"schedule {sched}: render of {c} gives {h}, alone {ref}", case)


if __name__ == "__main__":
    child_main(sys.argv[1], sys.argv[2])
