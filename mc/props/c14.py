"""C14 - network contents stay consistent under any history of edits.
E2: explicit-state BFS over real Network objects replayed from operation histories,
against a boring reference model (lists recomputed from scratch)."""
from __future__ import annotations

import itertools
import os
import shutil
import tempfile
from collections import Counter
from pathlib import Path

from ..core import bfs
from ..core.runner import HarnessError, guarded
from ..ref import formats as F

LEVEL = "model_checking"

# ---- reaction pool -------------------------------------------------------------------
# id -> (reactants, products, window, type, equality class)
POOL = {
    "r0": (["H", "H"], ["H2"], (-1.0, -1.0), 100, "A"),
    "r1": (["H2", "CR"], ["H", "H"], (-1.0, -1.0), 101, "B"),
    "r2": (["C", "H"], ["CH"], (-1.0, -1.0), 100, "C"),
    "r3": (["CH", "PHOTON"], ["C", "H"], (-1.0, -1.0), 102, "D"),
    "r4": (["H", "C"], ["CH"], (-1.0, -1.0), 100, "C"),  # r2 with permuted reactants: equal
    "r4w": (["H", "C"], ["CH"], (10.0, 300.0), 100, "E"),  # other window: not equal
    "r5": (["He+", "e-"], ["He"], (-1.0, -1.0), 100, "F"),  # species outside every allowed list
    "r6": (["He+", "E"], ["He"], (-1.0, -1.0), 100, "H"),  # the electron in its other spelling (only used by the extend inputs)
    # two identical lines of a KIDA file
    "f0": (["H2", "C"], ["CH", "H"], (10.0, 300.0), 100, "G"),
    "f1": (["H2", "C"], ["CH", "H"], (10.0, 300.0), 100, "G"),
}
PSEUDO = {"CR", "PHOTON"}
ALLOWED = {"A0": [], "A1": ["H", "H2"], "A2": ["H", "H2", "C", "CH"]}
REQUIRED = {"R0": [], "R1": ["He"]}

FULL_MENU = (
    [f"add:{r}" for r in ("r0", "r1", "r2", "r3", "r4", "r4w", "r5")]
    + ["addfile", "rm:first", "rm:last", "rm:list01", "rm:list101", "rm:refused", "rm:inst:r0", "rm:inst:r2", "rm:insts:r0,r2"]
    + [f"allowed:{a}" for a in ALLOWED]
    + [f"required:{r}" for r in REQUIRED]
    + ["dedupe", "append:depletion", "append:thermal", "reindex"]
)
REDUCED_MENU = ["add:r0", "add:r2", "add:r5", "rm:first", "rm:list101", "rm:refused", "rm:inst:r0", "allowed:A1", "allowed:A2", "required:R1", "dedupe", "append:depletion"]


def species_of(rid):
    r, p, *_ = POOL[rid] if rid in POOL else DERIVED[rid]
    return [x for x in r if x not in PSEUDO], [x for x in p if x not in PSEUDO]


DERIVED = {}  # 'dep:<spec>' / 'thd:<spec>' reactions appended by the extend loop body


def derived(kind, spec):
    rid = f"{kind}:{spec}"
    if kind == "dep":
        DERIVED[rid] = ([spec], ["#" + spec], (-1.0, -1.0), 200, rid)
    else:
        DERIVED[rid] = (["#" + spec], [spec], (-1.0, -1.0), 201, rid)
    return rid


def eqclass(rid):
    return (POOL.get(rid) or DERIVED[rid])[4]


# ---- reference model -----------------------------------------------------------------
class Model:
    def __init__(self):
        self.held = []  # [(rid, idx)]
        self.skipped = []  # [rid]
        self.allowed = []
        self.required = []

    def ok(self, rid):
        if not self.allowed:
            return True
        r, p = species_of(rid)
        return all(s in self.allowed for s in r + p)

    def add(self, rid, idx=-1):
        if self.ok(rid):
            self.held.append((rid, idx))
        else:
            self.skipped.append((rid, idx))

    def species(self):
        out = []
        for rid, _ in self.held:
            r, p = species_of(rid)
            for s in r + p:
                if s not in out:
                    out.append(s)
        for s in self.required:
            if s not in out:
                out.append(s)
        return out

    def reactants(self):
        return {s for rid, _ in self.held for s in species_of(rid)[0]}

    def products(self):
        return {s for rid, _ in self.held for s in species_of(rid)[1]}

    def apply(self, op):
        """-> enabled?"""
        kind, _, arg = op.partition(":")
        if kind == "add":
            self.add(arg)
        elif kind == "addfile":
            self.add("f0", 11)
            self.add("f1", 12)
        elif op == "rm:first":
            if not self.held:
                return False
            self.held.pop(0)
        elif op == "rm:last":
            if not self.held:
                return False
            self.held.pop(len(self.held) - 1)
        elif op in ("rm:list01", "rm:list101"):  # the second names the same two positions, unordered and with a repeat
            if len(self.held) < 2:
                return False
            self.held = self.held[2:]
        elif op == "rm:refused":
            pass  # a call the library refuses (index past the end, then an argument of a wrong type) changes nothing
        elif op.startswith("rm:inst:"):
            cls = eqclass(op[8:])
            self.held = [(r, i) for r, i in self.held if eqclass(r) != cls]
        elif op.startswith("rm:insts:"):
            cl = {eqclass(x) for x in op[9:].split(",")}
            self.held = [(r, i) for r, i in self.held if eqclass(r) not in cl]
        elif kind == "allowed":
            self.allowed = list(ALLOWED[arg])
            rec = self.held + self.skipped
            self.held, self.skipped = [], []
            for rid, idx in rec:
                self.add(rid, idx)
        elif kind == "required":
            self.required = list(REQUIRED[arg])
        elif op == "dedupe":
            keep = []
            seen = []
            for rid, idx in self.held:
                if eqclass(rid) in seen:
                    continue
                seen.append(eqclass(rid))
                keep.append((rid, idx))
            self.held = keep
        elif op == "append:depletion":
            # neutral gas species of the reactions currently held, sorted by name
            sp = sorted(self.reactants() | self.products())
            for s in sp:
                if not s.startswith("#") and not s.endswith(("+", "-")) and s not in ("e-", "E"):
                    self.add(derived("dep", s))
        elif op == "append:thermal":
            sp = sorted(self.reactants() | self.products())
            for s in sp:
                if s.startswith("#"):
                    self.add(derived("thd", s[1:]))
        elif op == "reindex":
            self.held = [(rid, i) for i, (rid, _) in enumerate(self.held)]
        else:
            raise HarnessError(op)
        return True


# ---- the real thing --------------------------------------------------------------------
_KIDA_FILE = None


def kida_file():
    global _KIDA_FILE
    from ..harness.render import scratch

    if _KIDA_FILE is None or not Path(_KIDA_FILE).exists():
        p = scratch() / "c14.kida"
        lines = []
        for rid, idx in (("f0", 11), ("f1", 12)):
            r, pr, (lo, hi), t, _ = POOL[rid]
            lines.append(F.enc_kida(F.AReaction(r, pr, 1e-10, 0.0, 0.0, lo, hi, idx, 3, None)))
        p.write_text("\n".join(lines) + "\n")
        _KIDA_FILE = str(p)
    return _KIDA_FILE


def mk(rid):
    from naunet.reactions.reaction import Reaction
    from naunet.reactiontype import ReactionType

    r, p, (lo, hi), t, _ = POOL.get(rid) or DERIVED[rid]
    x = Reaction(list(r), list(p), lo, hi, 1.0, 0.0, 0.0, ReactionType(t))
    x._verif_id = rid
    return x


def apply_real(net, op):
    from naunet.reactions.reaction import Reaction
    from naunet.reactiontype import ReactionType

    kind, _, arg = op.partition(":")
    if kind == "add":
        net.add_reaction(mk(arg))
    elif kind == "addfile":
        net.add_reaction_from_file(kida_file(), "kida")
    elif op == "rm:first":
        net.remove_reaction(0)
    elif op == "rm:last":
        net.remove_reaction(-1)  # counted from the end, as the list the index refers to allows
    elif op == "rm:list01":
        net.remove_reaction([0, 1])
    elif op == "rm:list101":
        net.remove_reaction([1, 0, 1])
    elif op == "rm:refused":
        for bad in (len(net.reaction_list) + 5, (0,)):
            try:
                net.remove_reaction(bad)
            except (IndexError, TypeError):
                continue
            raise HarnessError(f"remove_reaction({bad!r}) was expected to be refused")
    elif op.startswith("rm:inst:"):
        net.remove_reaction(mk(op[8:]))
    elif op.startswith("rm:insts:"):
        net.remove_reaction([mk(x) for x in op[9:].split(",")])
    elif kind == "allowed":
        net.allowed_species = list(ALLOWED[arg])
    elif kind == "required":
        net.required_species = list(REQUIRED[arg])
    elif op == "dedupe":
        _, dupidx, _ = net.find_duplicate_reaction()
        net.remove_reaction(dupidx)
    elif op == "append:depletion":
        # the loop body of ExtendCommand.handle (species iterated in name order)
        species = sorted(net.reactants | net.products, key=lambda s: s.name)
        for spec in species:
            if spec.name == spec.gasname and spec.charge == 0:
                reaction = Reaction([spec], [f"#{spec}"], alpha=1.0, reaction_type=ReactionType.GRAIN_FREEZE)
                reaction._verif_id = f"dep:{spec.name}"
                net.add_reaction(reaction)
    elif op == "append:thermal":
        species = sorted(net.reactants | net.products, key=lambda s: s.name)
        for spec in species:
            if spec.is_surface:
                reaction = Reaction([spec], [f"{spec.gasname}"], alpha=1.0, reaction_type=ReactionType.GRAIN_DESORB_THERMAL)
                reaction._verif_id = f"thd:{spec.gasname}"
                net.add_reaction(reaction)
    elif op == "reindex":
        net.reindex()
    else:
        raise HarnessError(op)


def rid_of(r):
    v = getattr(r, "_verif_id", None)
    if v is not None:
        return v
    if getattr(r, "format", "") == "kida":
        return "f"  # the two (identical) reactions of the KIDA file
    return "?"


def step(history):
    from ..harness.render import render, reset_globals, quiet

    reset_globals()
    from naunet.network import Network

    model = Model()
    viols = []
    enabled = True
    case = {"history": list(history)}
    with quiet():
        net = Network()
        for i, op in enumerate(history):
            en = model.apply(op)
            if not en:
                enabled = False
                break
            try:
                apply_real(net, op)
            except Exception as e:
                viols.append((f"C14:op-raises:{op.split(':')[0]}:{type(e).__name__}", f"history {list(history[:i+1])}: {op} raised {e!r}", case))
                return {"history": history, "enabled": True, "key": ("error", history), "viols": viols, "outcome": "error"}
        if not enabled:
            return {"history": history, "enabled": False, "key": None, "viols": [], "outcome": None}
        last = history[-1] if history else "init"
        lastk = ":".join(last.split(":")[:2]) if last.startswith(("rm", "append")) else last.split(":")[0]
        # the observers themselves must work in every reachable state
        try:
            net.species, net.find_source_sink(), net.where_species("H"), net.elements, net.grains, net.grain_groups
        except HarnessError:
            raise
        except Exception as e:
            viols.append((f"C14:observer-raises:after-{lastk}:{type(e).__name__}", f"history {list(history)}: an observer (species / find_source_sink / where_species / elements) raises {e!r}", case))
            return {"history": history, "enabled": True, "key": ("error", history), "viols": viols, "outcome": "error"}
        # file reactions keep their file index as identity
        got_held = [(rid_of(r), r.idxfromfile) for r in net.reaction_list]
        exp_held = list(model.held)
        exp_held = [("f" if e[0] in ("f0", "f1") else e[0], e[1]) for e in exp_held]
        if got_held != exp_held:
            viols.append((f"C14:reaction-list:after-{lastk}", f"history {list(history)}: network holds {got_held}, model says {exp_held}", case))
        # I2 species
        got_sp = sorted(s.name for s in net.species)
        exp_sp = sorted(model.species())
        if got_sp != exp_sp:
            viols.append((f"C14:species:after-{lastk}", f"history {list(history)}: species {got_sp}, reactions held + required give {exp_sp}", case))
        # I3 sources / sinks
        src, snk = net.find_source_sink()
        gsrc, gsnk = sorted(s.name for s in src), sorted(s.name for s in snk)
        esrc, esnk = sorted(model.reactants() - model.products()), sorted(model.products() - model.reactants())
        if (gsrc, gsnk) != (esrc, esnk):
            viols.append((f"C14:source-sink:after-{lastk}", f"history {list(history)}: sources/sinks {gsrc}/{gsnk}, recomputed {esrc}/{esnk}", case))
        # I4 where_species
        for sp in ("H", "C", "CH", "He"):
            got = net.where_species(sp)
            exp = [i for i, (rid, _) in enumerate(model.held) if sp in species_of(rid)[0] + species_of(rid)[1]]
            if got != exp:
                viols.append((f"C14:where_species:after-{lastk}", f"history {list(history)}: where_species({sp}) = {got}, model {exp}", case))
                break
        # I5 allowed
        if model.allowed:
            for r in net.reaction_list:
                names = [s.name for s in r.reactants + r.products]
                if any(n not in model.allowed for n in names):
                    viols.append((f"C14:disallowed-held:after-{lastk}", f"history {list(history)}: holds {names} with allowed {model.allowed}", case))
                    break
        # I6 differential: index macros of the edited object == those of a one-shot construction
        try:
            one = Network([mk(rid) for rid, _ in model.held], required_species=list(model.required))
            has_grain_reaction = any(rid.startswith(("dep:", "thd:")) for rid, _ in model.held)
            if has_grain_reaction:
                # rendering needs a dust model for these; the macros are a function of Network.species only
                f_edit = [(s.alias, i) for i, s in enumerate(net.species)]
                f_one = [(s.alias, i) for i, s in enumerate(one.species)]
            else:
                f_edit = render(net, "dense", ["include/naunet_macros.h.j2"])["include/naunet_macros.h"]
                f_one = render(one, "dense", ["include/naunet_macros.h.j2"])["include/naunet_macros.h"]
            if f_edit != f_one:
                import re

                a = re.findall(r"#define (NSPECIES|NELEMENTS|IDX_\w+) (\S+)", f_edit) if isinstance(f_edit, str) else f_edit
                b = re.findall(r"#define (NSPECIES|NELEMENTS|IDX_\w+) (\S+)", f_one) if isinstance(f_one, str) else f_one
                viols.append((f"C14:macros-differ:after-{lastk}", f"history {list(history)}: index macros of the edited network {a} vs one-shot network of the same reactions {b}", case))
        except HarnessError:
            raise
        except Exception as e:
            viols.append((f"C14:render-error:after-{lastk}:{type(e).__name__}", f"history {list(history)}: {e!r}", case))
        # I7 observers are pure: the same history with every public observer called after every operation (species,
        # elements, sources/sinks, where_species, duplicate search) must end in the same observable state
        if len(history) >= 2:
            try:
                net2 = Network()
                for op in history:
                    apply_real(net2, op)
                    net2.species, net2.elements, net2.find_source_sink(), net2.where_species("H"), net2.find_duplicate_reaction(), net2.grains, net2.grain_groups
                    [s.alias for s in net2.species]
                obs2 = ([(rid_of(r), r.idxfromfile) for r in net2.reaction_list], sorted(s.name for s in net2.species), [sorted(x.name for x in part) for part in net2.find_source_sink()])
                obs1 = (got_held, got_sp, [gsrc, gsnk])
                if obs2 != obs1:
                    viols.append((f"C14:observers-not-pure:after-{lastk}", f"history {list(history)}: with the observers called after every operation the network ends with {obs2}, without them {obs1}", case))
            except HarnessError:
                raise
            except Exception as e:
                viols.append((f"C14:observers-not-pure:raises:{type(e).__name__}", f"history {list(history)}: replay with interleaved observers raised {e!r}", case))
        # the search key pairs the state of the real object with the state of the reference model: two
        # histories are merged only if BOTH agree, so an implementation state that silently drifted from
        # the model (without an observable difference yet) is still expanded
        model_key = (
            tuple(("f" if r in ("f0", "f1") else r, i) for r, i in model.held),
            tuple("f" if r in ("f0", "f1") else r for r, _ in model.skipped),
            tuple(model.allowed),
            tuple(model.required),
        )
        key = (
            model_key,
            tuple(got_held),
            tuple(rid_of(r) for r in net._skipped_reactions),
            tuple(net.allowed_species),
            tuple(net.required_species),
            tuple(sorted(s.name for s in net._reactants)),
            tuple(sorted(s.name for s in net._products)),
        )
        outcome = (tuple(got_sp), tuple(gsrc), tuple(gsnk))
    return {"history": history, "enabled": True, "key": key, "viols": viols, "outcome": hash(outcome)}


# ---- allowed-list setter vs constructor (differential, every state of the BFS reaches it) ----
def allowed_vs_constructor(arg):
    adds, L = arg
    from ..harness.render import reset_globals, quiet

    reset_globals()
    from naunet.network import Network

    with quiet():
        a = Network()
        for rid in adds:
            a.add_reaction(mk(rid))
        a.allowed_species = list(ALLOWED[L])
        b = Network([mk(rid) for rid in adds], allowed_species=list(ALLOWED[L]))
    ra = Counter(rid_of(r) for r in a.reaction_list)  # noqa
    rb = Counter(rid_of(r) for r in b.reaction_list)
    sa, sb = sorted(s.name for s in a.species), sorted(s.name for s in b.species)
    if ra != rb or sa != sb:
        return [(f"C14:allowed-later-vs-constructor", f"adds {adds}, allowed {ALLOWED[L]}: setter gives {dict(ra)} / {sa}, constructor gives {dict(rb)} / {sb}", {"adds": list(adds), "allowed": L})]
    return []


FOREIGN_LINES = [
    "1,He+,H,,He,H+,,,,,1e-9,0,0,10,1000,100,demo",
    "2,C+,O,,C,O+,,,,,1e-9,0,0,10,1000,100,demo",
    "3,He+,O,,He,O+,,,,,1e-9,0,0,10,1000,100,demo",
    "4,CO,He+,,C+,O,He,,,,1e-9,0,0,10,1000,100,demo",
]
FOREIGN_ALLOWED = [["He+", "He", "H", "H+", "O", "O+"], ["C+", "O", "C", "O+"], ["He+", "He", "CO", "C+", "O"], []]
FOREIGN_OTHERS = [
    {"elements": ["H", "D", "C"], "pseudo_elements": ["CR"]},
    {"elements": ["H", "C", "O", "N"], "pseudo_elements": []},
    {},  # the default lists
]
FOREIGN_OPS = ["construct", "add", "set-allowed", "species"]


def allowed_with_foreign_network(arg):
    """every Network carries its own element lists: a network of the same session with OTHER lists, built or used
    between the construction of a network and a later change of its allowed list, must not change the result (setter =
    constructor with that list)"""
    nl, ai, oi, op = arg
    from ..harness.render import reset_globals, quiet

    reset_globals()
    from naunet.network import Network

    kw = dict(elements=["H", "He", "C", "O"], pseudo_elements=["CR", "CRPHOT", "PHOTON"])
    lines = FOREIGN_LINES[:nl]
    allowed = FOREIGN_ALLOWED[ai]

    def content(net):
        src, snk = net.find_source_sink()
        return (sorted(r.idxfromfile for r in net.reaction_list), sorted(s.name for s in net.species), sorted(s.name for s in src), sorted(s.name for s in snk))

    case = {"foreign": [nl, ai, oi, op]}
    with quiet():
        ref = Network(allowed_species=list(allowed), **kw)
        for ln in lines:
            ref.add_reaction((ln, "naunet"))
        want = content(ref)
        reset_globals()
        net = Network(**kw)
        for ln in lines:
            net.add_reaction((ln, "naunet"))
        other = Network(**FOREIGN_OTHERS[oi])
        if op != "construct":
            other.add_reaction(("1,H2,C,,CH,H,,,,,1e-10,0,0,10,1000,100,demo", "naunet"))
        if op == "set-allowed":
            other.allowed_species = ["H2", "C", "CH", "H"]
        if op == "species":
            _ = [s.name for s in other.species]
        try:
            net.allowed_species = list(allowed)
            got = content(net)
        except Exception as e:
            return [(f"C14:allowed-after-foreign-network:raises", f"network with elements {kw['elements']} and lines {lines}; another network ({FOREIGN_OTHERS[oi] or 'default lists'}, {op}) in between; allowed_species = {allowed} raises {e!r}", case)]
    if got != want:
        return [(f"C14:allowed-after-foreign-network", f"network with elements {kw['elements']}; another network ({FOREIGN_OTHERS[oi] or 'default lists'}, {op}) in between; allowed {allowed}: setter gives {got}, constructor gives {want}", case)]
    return []


def spelling_filter(arg):
    """the allowed list names *species*: a reaction whose species equal allowed ones under another spelling (electron
    'E' / 'E-' / 'e-', ice '#CO' / 'GCO' with prefix G) is allowed, through every entry path"""
    entry, allowed, reac, kwargs = arg[:4]
    nkw = {"species_kwargs": dict(kwargs)} if len(arg) > 4 and arg[4] else {}  # the network itself is given the symbols
    from ..harness.render import reset_globals, quiet

    reset_globals()
    from naunet.network import Network
    from naunet.reactions.reaction import Reaction
    from naunet.reactiontype import ReactionType
    from naunet.species import Species

    def mkr():
        r = [Species(x, **kwargs) for x in reac[0]]
        p_ = [Species(x, **kwargs) for x in reac[1]]
        return Reaction(r, p_, -1.0, -1.0, 1e-10, 0.0, 0.0, ReactionType.GAS_TWOBODY, 5)

    with quiet():
        if entry == "constructor":
            net = Network([mkr()], allowed_species=list(allowed), **nkw)
        elif entry == "add":
            net = Network(allowed_species=list(allowed), **nkw)
            net.add_reaction(mkr())
        else:
            net = Network([mkr()], **nkw)
            net.allowed_species = list(allowed)
    if len(net.reaction_list) != 1:
        return [(f"C14:allowed-spelling:{entry}", f"allowed {allowed}, reaction {reac[0]} -> {reac[1]} ({kwargs or 'default symbols'}) via {entry}: every species of the reaction equals an allowed one, but the reaction is filtered out", {"spelling": [entry, list(allowed), [list(reac[0]), list(reac[1])], kwargs, bool(nkw)]})]
    return []


SPELLING = [
    (["e-", "H+", "H"], (["H+", "E"], ["H"]), {}),
    (["E", "H+", "H"], (["H+", "e-"], ["H"]), {}),
    (["e-", "H+", "H"], (["H+", "E-"], ["H"]), {}),
    (["#CO", "CO"], (["CO"], ["GCO"]), {"surface_prefix": "G"}),
    (["GRAIN0", "GRAIN0-", "e-"], (["GRAIN0", "E"], ["GRAIN0-"]), {}),
    # the network is told the symbols (species_kwargs) and the allowed list is spelled with them
    (["GCO", "CO"], (["CO"], ["GCO"]), {"surface_prefix": "G"}, True),
    (["DUST0", "DUST0-", "e-"], (["DUST0", "e-"], ["DUST0-"]), {"grain_symbol": "DUST"}, True),
]


# ---- CLI: naunet extend ----------------------------------------------------------------
def cli_case(arg):
    idx, lines_ids, flags, remove = arg
    reduce_by = None
    if remove and remove.startswith("keep:"):
        reduce_by, remove = remove[5:], None
    from ..harness.render import reset_globals, quiet, scratch
    from ..harness.cli import run_command
    from naunet.configuration import BaseConfiguration

    reset_globals()
    case = {"cli": True, "input": list(lines_ids), "flags": list(flags), "remove_species": arg[3]}
    d = Path(tempfile.mkdtemp(dir=scratch()))
    try:
        (d / "naunet_config.toml").write_text(BaseConfiguration("p").content)
        model = Model()
        lines = []
        for k, rid in enumerate(lines_ids):
            r, p, (lo, hi), t, _ = POOL[rid]
            lines.append(F.enc_naunet(F.AReaction(r, p, 1.0, 0.0, 0.0, lo, hi, k, t, None)))
            model.add(rid, k)
        (d / "in.naunet").write_text("\n".join(lines) + "\n")
        args = ["in.naunet", "out.naunet"]
        if reduce_by:
            args.append(f"--reduce-by-species={reduce_by}")
            keep = [x.strip() for x in reduce_by.split(",")]
            model.held = [(r, i) for r, i in model.held if all(x in keep for x in species_of(r)[0] + species_of(r)[1])]
        if remove:
            args.append(f"--remove-species={remove}")
            model.held = [(r, i) for r, i in model.held if remove not in species_of(r)[0] + species_of(r)[1]]
        if "remove-duplicate" in flags:
            args.append("--remove-duplicate")
            model.apply("dedupe")
        if "append-depletion" in flags:
            args.append("--append-depletion")
            model.apply("append:depletion")
        if "append-thermal-desorption" in flags:
            args.append("--append-thermal-desorption")
            model.apply("append:thermal")
        import shlex

        st, out, err, exc = run_command("extend", " ".join(shlex.quote(a) for a in args), d)
        if exc is not None:
            return 1, [(f"C14:extend-raises:{type(exc).__name__}", f"naunet extend {' '.join(args)} raised {exc!r}", case)]
        if not (d / "out.naunet").exists():
            return 1, [(f"C14:extend-no-output", f"naunet extend {' '.join(args)}: no output file (status {st})", case)]
        got = Counter()
        for ln in (d / "out.naunet").read_text().splitlines():
            if not ln.strip():
                continue
            r, p = F.dec_species(ln, "naunet")
            got[(tuple(sorted(r)), tuple(sorted(p)))] += 1
        exp = Counter()
        for rid, _ in model.held:
            r, p = species_of(rid)
            exp[(tuple(sorted(r)), tuple(sorted(p)))] += 1
        if got != exp:
            fl = "+".join(sorted(flags)) or "none"
            return 1, [(f"C14:extend-output:{fl}:{'rm' if remove else 'norm'}", f"naunet extend {' '.join(args)} on {lines_ids}: wrote {dict(got)}, model {dict(exp)}", case)]
        return 1, []
    finally:
        shutil.rmtree(d, ignore_errors=True)


def run(ctx):
    import multiprocessing as mp

    depth_full = 3 if ctx.tier == "quick" else 5
    r1 = bfs.explore(ctx, FULL_MENU, step, depth_full)
    results = {"full": r1}
    results["reduced"] = bfs.explore(ctx, REDUCED_MENU, step, 5 if ctx.tier == "quick" else 7)
    # allowed-later vs constructor: all add-sequences up to 3 over the pool x lists
    adds = [a for n in (1, 2, 3) for a in itertools.product(("r0", "r1", "r2", "r3", "r4w", "r5"), repeat=n)]
    work = [(a, L) for a in adds for L in ALLOWED]
    nav = 0
    for v in ctx.pmap(allowed_vs_constructor, work, chunksize=16):
        nav += 1
        ctx.absorb(v)
    for v in ctx.pmap(allowed_with_foreign_network, [(nl, ai, oi, op) for nl in (1, 2, 3, 4) for ai in range(len(FOREIGN_ALLOWED)) for oi in range(len(FOREIGN_OTHERS)) for op in FOREIGN_OPS], chunksize=8):
        nav += 1
        ctx.absorb(v)
    nsp = 0
    for v in ctx.pmap(spelling_filter, [(e, *sp) for e in ("constructor", "add", "setter") for sp in SPELLING]):
        nsp += 1
        ctx.absorb(v)
    # CLI
    inputs = [("r0", "r1"), ("r0", "r2", "r4", "r3"), ("r2", "r2", "r0", "r5"), ("r0", "r6")]
    flagsets = [fs for n in range(0, 4) for fs in itertools.combinations(["remove-duplicate", "append-depletion", "append-thermal-desorption"], n)]
    cli = [(i, inp, fs, rm) for i, (inp, fs, rm) in enumerate(itertools.product(inputs, flagsets, [None, "H", "CH", "keep:H,H2", "keep:H, C, CH"]))]
    ncli = 0
    with mp.get_context("fork").Pool(ctx.workers, maxtasksperchild=1) as pool:
        for n, v in pool.imap_unordered(guarded(cli_case), cli):
            ncli += n
            ctx.absorb(v)
    states = sum(r.states for r in results.values())
    trans = sum(r.transitions for r in results.values())
    ctx.assumptions += [
        "a state is the operation history; canonical key = (reference-model state, real-object state) where the real-object part is (held reaction ids+indices in order, skipped ids in order, allowed list, required list, cached reactant set, cached product set): histories are merged only when model AND implementation agree, so merged states have equal futures even where the implementation has silently drifted",
        "operations are atomic public API calls on a fresh real Network replayed from the history; 'append depletion/desorption' is the loop body of ExtendCommand.handle with the species iterated in name order",
        "reaction equality of the reference: same reactant/product multisets, same window, same type (pool classes A..G)",
        "the invariant is evaluated on every (state, incoming transition), not once per merged state",
        "I7: every history is executed twice on the real object - silently, and with all public observers (species, elements, find_source_sink, where_species, find_duplicate_reaction, aliases) called after every operation; both must end in the same observable state (observers have no effect on later results)",
    ]
    return {
        "states": states,
        "transitions": trans,
        "traces_validated_against_impl": trans,
        "samples": [{"menu": k, "histories": r.samples} for k, r in results.items()],
        "evaluations": trans + nav + ncli + nsp,
        "distinct_nontrivial": states,
        "rule": "BFS over operation histories on real Network objects: full 26-operation menu to depth 3 (quick) / 5 (thorough), reduced 12-operation menu to depth 5 (quick) / 7 (thorough); every transition executes the real method and is compared with the reference model; plus allowed-setter vs constructor on all add sequences <=3, plus `naunet extend` on 4 inputs (one spelling the electron E) x 8 flag sets x 3 remove-species values",
        "levels": {k: r.per_level for k, r in results.items()},
        "depth_completed": {k: r.depth_completed for k, r in results.items()},
        "disabled_transitions": sum(r.disabled for r in results.values()),
        "distinct_observed_outcomes": len(set().union(*[r.outcomes for r in results.values()])),
        "allowed_vs_constructor_cases": nav,
        "cli_cases": ncli,
        "menu_full": FULL_MENU,
        "menu_reduced": REDUCED_MENU,
        "exhaustive": True,
    }


def replay(ctx, case):
    if case.get("cli"):
        n, v = cli_case((0, tuple(case["input"]), tuple(case["flags"]), case["remove_species"]))
        ctx.absorb(v)
    elif "adds" in case:
        ctx.absorb(allowed_vs_constructor((tuple(case["adds"]), case["allowed"])))
    elif "foreign" in case:
        ctx.absorb(allowed_with_foreign_network(tuple(case["foreign"])))
    elif "spelling" in case:
        e, a, r, k, *flag = case["spelling"]
        ctx.absorb(spelling_filter((e, a, (r[0], r[1]), k, *flag)))
    else:
        out = step(tuple(case["history"]))
        ctx.absorb(out["viols"])
        out2 = step(tuple(case["history"]))
        if [v[0] for v in out["viols"]] != [v[0] for v in out2["viols"]]:
            raise HarnessError("replay is not deterministic")
