"""Shared machinery for C01-C04 (+C13): abstract networks, the boring reference
model (a dict of multisets), enumerators S1..S4, and the per-case oracles."""
from __future__ import annotations

import itertools
import os
import re
from collections import Counter
from fractions import Fraction
from pathlib import Path

from ..core.runner import HarnessError, REPO
from ..ctext import poly as P
from ..ctext.odetext import NotC, read_ode

PSEUDO = {"CR", "CRP", "PHOTON", "CRPHOT", "Photon", "XRAY"}
ALL_BACKENDS = ["dense", "sparse", "cusparse", "rosenbrock4"]


# --------------------------------------------------------------------------
# reference species model: a species is *built from* (surface, body, charge);
# its printed name and expected identifier follow the documented convention.
def canon(name: str) -> str:
    """canonical key of an abstract species name (electron spellings unified)"""
    if name in ("e-", "E", "E-", "e"):
        return "e-"
    return name


def expected_aliases(name: str) -> set[str]:
    """documented alias rule: surface '#'->'G', '+'->'I' (neutral 'I'), '-'->'M'"""
    if canon(name) == "e-":
        return {"eM", "EM"}
    m = re.match(r"^(#?)(.*?)(\+*|-*)$", name)
    surf, body, ch = m.groups()
    q = len(ch) if ch.startswith("+") else -len(ch)
    return {("G" if surf else "") + body + ("I" * (q + 1) if q >= 0 else "M" * (-q))}


COOLING = {
    # name -> reactants (transcribed from the documented process list)
    "CIC_HI": ["H", "e-"],
    "CIC_HeI": ["He", "e-"],
    "CIC_HeII": ["He+", "e-"],
    "CIC_He_2S": ["He+", "e-", "e-"],
    "RC_HII": ["H+", "e-"],
    "RC_HeI": ["He+", "e-"],
    "RC_HeII": ["He+", "e-"],
    "RC_HeIII": ["He++", "e-"],
    "CEC_HI": ["H", "e-"],
    "CEC_HeI": ["He+", "e-"],
    "CEC_HeII": ["He+", "e-"],
}


def rtype_for(reactants):
    if "CR" in reactants or "CRP" in reactants:
        return 101
    if "PHOTON" in reactants:
        return 102
    if "CRPHOT" in reactants:
        return 120
    return 100


def build_network(desc: dict):
    """desc: {'reactions': [[reactants],[products]]..., 'required': [...], 'cooling': [...],
              'files': [[path, fmt]...], 'ode_modifier': {...}, 'rate_modifier': {...}}"""
    from naunet.network import Network
    from naunet.reactions.reaction import Reaction
    from naunet.reactiontype import ReactionType

    kw = {}
    if desc.get("required"):
        kw["required_species"] = list(desc["required"])
    if desc.get("cooling"):
        kw["cooling"] = list(desc["cooling"])
    if desc.get("ode_modifier"):
        kw["ode_modifier"] = desc["ode_modifier"]
    if desc.get("rate_modifier"):
        kw["rate_modifier"] = {int(k): v for k, v in desc["rate_modifier"].items()}
    if desc.get("example"):
        import importlib

        mod = importlib.import_module(f"naunet.examples.{desc['example']}")
        path = REPO / "naunet" / "examples" / desc["example"] / mod.files
        return Network(
            filelist=str(path), fileformats=mod.formats, elements=list(mod.elements), pseudo_elements=list(mod.pseudo_elements),
            allowed_species=list(mod.allowed_species), required_species=list(mod.extra_species), cooling=list(desc.get("cooling") or []),
        )
    if desc.get("files"):
        return Network(filelist=[f for f, _ in desc["files"]], fileformats=[m for _, m in desc["files"]], **kw)
    reacs = []
    for item in desc["reactions"]:
        r, p = item[0], item[1]
        extra = item[2] if len(item) > 2 else {}
        reacs.append(
            Reaction(
                list(r),
                list(p),
                reaction_type=ReactionType(extra.get("type", rtype_for(r))),
                idxfromfile=extra.get("idx", -1),
                alpha=extra.get("alpha", 1.0),
            )
        )
    return Network(reacs, **kw)


def abstract_reactions(desc, net=None):
    """[(reactant multiset, product multiset)] in rate-index order, pseudo removed.
    For file-based networks the reference comes from our own reading of the file
    (mc.ref.formats) - see S4."""
    out = []
    for item in desc["reactions"]:
        r = [canon(x) for x in item[0] if x not in PSEUDO]
        p = [canon(x) for x in item[1] if x not in PSEUDO]
        out.append((r, p))
    return out


def reference_species(desc, areacs):
    s = []
    for r, p in areacs:
        for x in r + p:
            if x not in s:
                s.append(x)
    req = list(desc.get("required", []) or [])
    if desc.get("example"):
        import importlib

        req += list(importlib.import_module(f"naunet.examples.{desc['example']}").extra_species)
    for x in req:
        x = canon(x)
        if x not in s:
            s.append(x)
    return s


def slot_map(species, macros):
    """abstract species -> slot through the *rendered* IDX_ macros.
    returns (map, problems)"""
    m = {}
    problems = []
    for sp in species:
        found = [a for a in expected_aliases(sp) if f"IDX_{a}" in macros]
        if len(found) != 1:
            problems.append(("alias", sp, sorted(found)))
            continue
        m[sp] = macros.value(f"IDX_{found[0]}")
    slots = list(m.values())
    if len(set(slots)) != len(slots):
        problems.append(("slot-collision", sorted(m.items())))
    return m, problems


def reference_rhs(areacs, slots, cooling=None):
    """slot -> polynomial of the mass-action law;  thermal numerator separately"""
    rhs = {}
    for i, (r, p) in enumerate(areacs):
        mono = P.sym(f"k:{i}")
        for x in r:
            mono = P.mul(mono, P.sym(f"y:{slots[x]}"))
        net = Counter(p)
        net.subtract(Counter(r))
        for x, nu in net.items():
            if nu == 0:
                rhs.setdefault(slots[x], {})
                continue
            rhs[slots[x]] = P.add(rhs.get(slots[x], {}), P.mul(P.const(nu), mono))
    return rhs


def thermal_reference(cooling, slots):
    """(gamma-1) * (0 - sum kc_i prod y) / kerg / npar"""
    num = {}
    for i, name in enumerate(cooling):
        mono = P.sym(f"kc:{i}")
        for x in COOLING[name]:
            mono = P.mul(mono, P.sym(f"y:{slots[canon(x)]}"))
        num = P.add(num, mono, -1)
    pref = P.add(P.sym("gamma"), P.const(1), -1)
    den = P.mul(P.inv_monomial(P.sym("kerg")), P.inv_monomial(P.sym("npar")))
    return P.mul(P.mul(pref, num), den)


# --------------------------------------------------------------------------
# enumerators (complete, simplest first)
def multisets(alpha, lo, hi):
    for n in range(lo, hi + 1):
        yield from itertools.combinations_with_replacement(alpha, n)


def enum_S1(tier):
    """all single-reaction networks"""
    if tier == "quick":
        SR = ["H", "H2", "e-", "#H"]
        SP = ["H", "H2", "e-"]
        pmax = 3
        pseudo = [None, "CR"]
    else:
        SR = ["H", "H2", "e-", "H+", "#H", "GRAIN0"]
        SP = ["H", "H2", "e-"]
        pmax = 5
        pseudo = [None, "CR", "PHOTON"]
    for r in multisets(SR, 1, 3):
        for ps in pseudo:
            rr = list(r) + ([ps] if ps else [])
            for p in multisets(SP, 0, pmax):
                yield {"reactions": [[rr, list(p)]], "family": "S1"}


def _pool_shapes():
    A = ["H", "H2", "e-"]
    shapes = []
    for r in multisets(A, 1, 2):
        for p in multisets(A, 1, 2):
            shapes.append((list(r), list(p)))
    return shapes  # 9 x 9 = 81 ; plus 0-product shapes


def enum_S2(tier):
    """all ordered pairs (incl. the same reaction twice) from the shape pool, crossed with
    required species on an index-determined slice and the E/e- spelling clash"""
    shapes = _pool_shapes()
    for r in multisets(["H", "H2", "e-"], 1, 2):
        shapes.append((list(r), []))
    if tier == "quick":
        shapes = shapes[::3]
    n = 0
    for a in shapes:
        for b in shapes:
            d = {"reactions": [[a[0], a[1]], [b[0], b[1]]], "family": "S2"}
            if n % 10 == 3:
                d["required"] = ["He"]
            elif n % 10 == 7:
                d["required"] = ["H"]
            if n % 4 == 1:
                # electron spelled differently in the second reaction
                d["reactions"][1] = [[("E" if x == "e-" else x) for x in b[0]], [("E" if x == "e-" else x) for x in b[1]]]
            n += 1
            yield d


PRIMORDIAL = [
    [["H", "e-"], ["H+", "e-", "e-"]],
    [["H+", "e-"], ["H"]],
    [["He", "e-"], ["He+", "e-", "e-"]],
    [["He+", "e-"], ["He"]],
    [["He+", "e-"], ["He++", "e-", "e-"]],
    [["He++", "e-"], ["He+"]],
]


def enum_S3(tier):
    """thermal: primordial species with every subset of the 11 cooling processes in
    list order, plus every ordering of every 2-subset"""
    names = list(COOLING)
    if tier == "quick":
        subsets = [c for n in (0, 1, 2, 11) for c in itertools.combinations(names, n)]
    else:
        subsets = [c for n in range(0, 12) for c in itertools.combinations(names, n)]
    for c in subsets:
        yield {"reactions": PRIMORDIAL, "cooling": list(c), "family": "S3"}
    for a, b in itertools.permutations(names, 2):
        if names.index(a) > names.index(b):
            yield {"reactions": PRIMORDIAL, "cooling": [a, b], "family": "S3"}
    # the same chemistry with the electron in its other spelling (the cooling processes name it 'e-' themselves)
    prim_e = [[["E" if x == "e-" else x for x in r], ["E" if x == "e-" else x for x in p_]] for r, p_ in PRIMORDIAL]
    for c in [c for n in ((1, 11) if tier == "quick" else (1, 2, 11)) for c in itertools.combinations(names, n)]:
        yield {"reactions": prim_e, "cooling": list(c), "family": "S3"}
    # thermal + required-only and empty networks
    yield {"reactions": [], "required": ["H", "e-"], "cooling": ["CIC_HI"], "family": "S3"}


def enum_special(tier):
    """the empty network, isolated species only, catalysts, three-body"""
    yield {"reactions": [], "family": "SP"}
    yield {"reactions": [], "required": ["H"], "family": "SP"}
    yield {"reactions": [], "required": ["H", "He", "e-"], "family": "SP"}
    yield {"reactions": [[["H", "H", "H"], ["H2", "H"]]], "family": "SP"}
    yield {"reactions": [[["H", "H", "H2"], ["H2", "H2"]]], "family": "SP"}
    yield {"reactions": [[["H", "#H"], ["H2"]], [["#H"], ["H"]], [["H"], ["#H"]]], "family": "SP"}
    yield {"reactions": [[["GRAIN0", "e-"], ["GRAIN0-"]], [["GRAIN0-", "H+"], ["GRAIN0", "H"]]], "family": "SP"}
    yield {"reactions": [[["H", "H"], ["H2"]], [["H", "H"], ["H2"]], [["H", "H"], ["H2"]]], "family": "SP"}
    yield {"reactions": [[["H", "CR"], ["H+", "e-"]], [["H+", "E"], ["H", "PHOTON"]]], "required": ["He"], "family": "SP"}
    # one network beyond the single-digit sizes: 15 species, 19 reactions (k[10]..k[18], slots >= 10), the electron in
    # ten reactions (statements long enough to be wrapped over several lines), a sink without products
    yield {"reactions": BIG, "family": "SP"}
    # long names: a product term without blanks that is longer than the line width of the statement wrapper
    yield {"reactions": [[["CH3OCH2CH2OCH2CH2OH", "NH2CH2CH2CH2CH2OH", "HCOOCH2CH2CH2CH3"], ["H2O", "H2O"]], [["H2O", "HCOOCH2CH2CH2CH3"], ["CH3OCH2CH2OCH2CH2OH"]]], "family": "SP"}
    # repeated reactants / products in every order (the same species not adjacent in the list)
    yield {"reactions": [[["H", "H2", "H"], ["H2", "H2"]]], "family": "SP"}
    yield {"reactions": [[["H", "e-", "H"], ["H2", "e-"]], [["H2", "H", "H2"], ["H", "H", "H", "H2"]]], "family": "SP"}
    # placeholder reactions (coefficient 0) that the user supplies a law for through the rate modifier: their terms
    # are part of the right-hand side like any other
    yield {"reactions": [[["H", "H"], ["H2"]], [["H2"], ["H", "H"], {"alpha": 0.0, "idx": 7}]], "rate_modifier": {"7": "2.0 * zeta"}, "family": "SP"}
    yield {"reactions": [[["H2"], ["H", "H"], {"alpha": 0.0, "idx": 3}], [["H", "H+"], ["H2+"], {"idx": 4}], [["H2+", "e-"], ["H", "H"], {"alpha": 0.0, "idx": 5}]], "rate_modifier": {"5": "1e-7", "3": "zeta"}, "cooling": ["CIC_HI"], "family": "SP"}
    yield {"reactions": BIG + [[["CO"], []]], "cooling": ["CIC_HI", "RC_HII"], "required": ["Ar"], "family": "SP"}
    # a ring of 49 species (49 equations; 50 with the temperature): sizes at which index arithmetic done in floating
    # point (i * (1.0 / n)) first goes wrong; every row has an entry in another row's column, column 0 included
    ring = [f"C{n}H{n}" for n in range(2, 51)]
    yield {"reactions": [[[a], [b]] for a, b in zip(ring, ring[1:] + ring[:1])], "family": "SP"}


BIG = [
    [["H", "e-"], ["H+", "e-", "e-"]], [["H+", "e-"], ["H"]], [["He", "e-"], ["He+", "e-", "e-"]], [["He+", "e-"], ["He"]],
    [["C", "e-"], ["C+", "e-", "e-"]], [["C+", "e-"], ["C"]], [["O", "e-"], ["O+", "e-", "e-"]], [["O+", "e-"], ["O"]],
    [["H2", "e-"], ["H", "H", "e-"]], [["H", "H"], ["H2"]], [["C", "O"], ["CO"]], [["CO", "He+"], ["C+", "O", "He"]],
    [["O", "H"], ["OH"]], [["OH", "H"], ["H2O"]], [["H2O", "C+"], ["HCO+", "H"]], [["HCO+", "e-"], ["CO", "H"]],
    [["H2", "He+"], ["H+", "H", "He"]], [["OH", "C+"], ["CO+", "H"]], [["CO+", "H"], ["CO", "H+"]],
]


# bundled / test files for S4 -------------------------------------------------
def bundled_files():
    t = REPO / "tests" / "test_input"
    out = []
    for p, fmt in [
        (t / "minimal.kida", "kida"),
        (t / "minimal.umist", "umist"),
        (t / "minimal.krome", "krome"),
        (t / "minimal.leeds", "leeds"),
        (t / "minimal.uclchem", "uclchem"),
        (t / "minimal.naunet", "naunet"),
    ]:
        if p.exists():
            out.append((str(p), fmt))
    return out


# --------------------------------------------------------------------------
# oracles
def case_label(desc):
    return {k: v for k, v in desc.items() if k != "family"}


def _sig_shape(desc):
    """a coarse but deterministic shape descriptor for signatures"""
    rs = desc.get("reactions") or []
    parts = []
    for item in rs[:3]:
        r, p = item[0], item[1]
        parts.append("+".join(r) + "->" + "+".join(p))
    return ";".join(parts) + ("|req=" + ",".join(desc["required"]) if desc.get("required") else "") + (
        "|cool=" + ",".join(desc["cooling"]) if desc.get("cooling") else ""
    )


def render_and_read(desc, backend, net=None):
    from ..harness.render import render

    net = net or build_network(desc)
    files = render(net, backend, "ode", jac_pattern=False)
    return files, read_ode(files, backend), net


def batch_layout_problems(ot, kernel, want):
    """CUDA kernels work on a batch: system `cur` owns y[cur*NEQUATIONS ...] and data[cur*NNZ ...].  The
    statements are read relative to those windows; here the windows themselves are compared with the layout the
    host code uses (N_VSpace / NEQUATIONS systems, NNZ entries per block).  want: {name: polynomial}"""
    from ..ctext.cexpr import parse_expr

    out = []
    b = ot.batch.get(kernel, {})
    md = ot.macros.as_dict()
    for name, exp in want.items():
        txt = b.get(name)
        if txt is None:
            out.append(f"{kernel}: no definition of {name}")
            continue
        try:
            import re as _re

            def _val(m):
                try:
                    return str(ot.macros.value(m.group(0)))
                except Exception:
                    return m.group(0)

            got = P.to_poly(parse_expr(_re.sub(r"\b[A-Z][A-Z0-9_]*\b", _val, txt)), md)
        except Exception as e:
            out.append(f"{kernel}: {name} = {txt!r} unreadable ({e})")
            continue
        if got != exp:
            out.append(f"{kernel}: {name} = {txt} is {P.show(got)}, the host lays systems out as {P.show(exp)}")
    return out


def kernel_reads_base_pointer(ot, kernel):
    """scalars of a CUDA kernel whose initialiser reads the *base* pointer y (system 0) instead of the window
    y_cur of the system the thread works on"""
    import re as _re

    inits = ot.scalar_init.get(kernel, {})
    # only scalars that reach an emitted statement matter (a stale value nobody uses breaks nothing)
    polys = list(ot.ydot.values()) if kernel == "FexKernel" else [p for (_s, p) in (ot.raw[k] for k in ot.raw if k[0] == "data")]
    used = set()
    for poly in polys:
        used |= {x for x in P.symbols(poly) if ":" not in x}
    frontier = list(used)
    while frontier:
        x = frontier.pop()
        for ident in _re.findall(r"[A-Za-z_][A-Za-z0-9_]*", inits.get(x, "")):
            if ident in inits and ident not in used:
                used.add(ident)
                frontier.append(ident)
    bad = []
    for name, txt in inits.items():
        if name == "y_cur" or name not in used:
            continue
        if _re.search(r"(?<![A-Za-z0-9_])y(?![A-Za-z0-9_])", txt):
            bad.append(f"{name} = {txt}")
    return bad


def check_c01(desc, ot, backend, areacs=None):
    """generated RHS == mass-action law (exact polynomial identity).  -> list of (sig, what)"""
    v = []
    areacs = areacs if areacs is not None else abstract_reactions(desc)
    species = reference_species(desc, areacs)
    cooling = desc.get("cooling") or []
    slots, problems = slot_map(species, ot.macros)
    if problems:
        return [(f"C01:slots:{backend}:{problems[0][0]}", f"species<->slot binding broken: {problems}")]
    if ot.nspec != len(species):
        v.append((f"C01:nspecies:{backend}", f"NSPECIES={ot.nspec}, reference has {len(species)} species"))
    ref = reference_rhs(areacs, slots)
    if backend == "cusparse":
        cur = P.sym("cur")
        probs = batch_layout_problems(ot, "FexKernel", {"yistart": P.mul(cur, P.const(ot.neq))})
        yc = " ".join((ot.batch.get("FexKernel", {}).get("y_cur") or "").split())
        if yc.replace(" ", "") != "y+yistart":
            probs.append(f"FexKernel: y_cur = {yc!r}, expected y + yistart")
        ud = (ot.batch.get("FexKernel", {}).get("udata") or "").replace(" ", "")
        if ud != "&d_udata[cur]":
            probs.append(f"FexKernel: udata = {ud!r}, expected &d_udata[cur]")
        if ot.lhs_offsets.get("FexKernel", {"yistart"}) != {"yistart"}:
            probs.append("FexKernel: a ydot target is not offset by yistart")
        if probs:
            v.append((f"C01:batch-layout:{backend}", "; ".join(probs)))
        bad = kernel_reads_base_pointer(ot, "FexKernel")
        if bad:
            v.append((f"C01:kernel-reads-system-0:{backend}", f"FexKernel: {bad} are evaluated on y (the first system of the batch), not on y_cur: every other system gets the first system's values"))
    # every species exactly one assignment
    cnt = Counter(ot.ydot_order)
    for sp, sl in slots.items():
        if cnt.get(sl, 0) != 1:
            v.append((f"C01:assign-count:{backend}", f"ydot of {sp} (slot {sl}) assigned {cnt.get(sl,0)} times"))
    for sp, sl in slots.items():
        got = ot.ydot.get(sl)
        exp = ref.get(sl, {})
        if got is None:
            continue
        if got != exp:
            v.append(
                (
                    f"C01:rhs:{backend}",
                    f"ydot[{sp}] = {P.show(got)} but mass-action law gives {P.show(exp)}",
                )
            )
            break
    # pseudo symbols never occur
    for sl, p in ot.ydot.items():
        for s in P.symbols(p):
            if s.startswith("y:") and int(s[2:]) >= ot.neq:
                v.append((f"C01:y-out-of-range:{backend}", f"y slot {s}"))
    if cooling:
        tslot = ot.macros.value("IDX_TGAS") if "IDX_TGAS" in ot.macros.text else None
        if tslot is None or tslot not in ot.ydot:
            v.append((f"C01:thermal-missing:{backend}", "thermal equation missing"))
        else:
            exp = thermal_reference(cooling, slots)
            if ot.ydot[tslot] != exp:
                v.append(
                    (
                        f"C01:thermal:{backend}",
                        f"ydot[TGAS] = {P.show(ot.ydot[tslot])} expected {P.show(exp)}",
                    )
                )
    else:
        extra = set(ot.ydot) - set(slots.values())
        # an empty network has NEQUATIONS 1 but no species: no assignment expected
        if extra:
            v.append((f"C01:extra-equation:{backend}", f"assignments to slots {sorted(extra)} that hold no species"))
    return v


def check_c02(desc, ot, backend):
    """jac(i,j) == d ydot_i / d y_j exactly; omitted entries have derivative 0"""
    v = []
    n = ot.neq
    for (r, c), p in ot.jac.items():
        if r == "?" or not (isinstance(r, int) and isinstance(c, int)):
            continue  # layout problem, judged by C03
        if r not in ot.ydot:
            if p:
                v.append((f"C02:row-without-equation:{backend}", f"J[{r},{c}] = {P.show(p)} but no ydot[{r}]"))
            continue
        d = P.diff(ot.ydot[r], f"y:{c}")
        if d != p:
            kind = "thermal" if ("IDX_TGAS" in ot.macros.text and r == ot.macros.value("IDX_TGAS")) else "species"
            v.append(
                (
                    f"C02:entry:{kind}:{backend}",
                    f"J[{r},{c}] = {P.show(p)} but d(ydot[{r}])/dy[{c}] = {P.show(d)}",
                )
            )
            break
    for r, pr in ot.ydot.items():
        for c in range(n):
            if (r, c) in ot.jac:
                continue
            d = P.diff(pr, f"y:{c}")
            if d:
                v.append(
                    (
                        f"C02:missing:{backend}",
                        f"J[{r},{c}] not emitted but d(ydot[{r}])/dy[{c}] = {P.show(d)}",
                    )
                )
                return v
    return v


def check_c03_single(desc, ot, backend, files):
    """layout invariants of one back-end + subscript bounds"""
    v = []
    n = ot.neq
    if backend in ("sparse", "cusparse"):
        rp, cv, di = ot.rowptrs or [], ot.colvals or [], ot.data_idx or []
        nnz = ot.nnz_macro
        if len(rp) != n + 1:
            v.append((f"C03:rowptrs-len:{backend}", f"{len(rp)} row pointers for {n} equations"))
        if rp and rp[0] != 0:
            v.append((f"C03:rowptrs-start:{backend}", f"rowptrs[0]={rp[0]}"))
        if any(a is None for a in rp) or any(rp[i] > rp[i + 1] for i in range(len(rp) - 1) if rp[i] is not None and rp[i + 1] is not None):
            v.append((f"C03:rowptrs-monotone:{backend}", f"rowptrs={rp}"))
        if rp and rp[-1] != nnz:
            v.append((f"C03:rowptrs-end:{backend}", f"rowptrs[-1]={rp[-1]} NNZ={nnz}"))
        if len(cv) != nnz:
            v.append((f"C03:colvals-len:{backend}", f"{len(cv)} colvals, NNZ={nnz}"))
        if sorted(di) != list(range(nnz)):
            v.append((f"C03:data-len:{backend}", f"data indices {di[:8]}.. NNZ={nnz}"))
        for r in range(min(len(rp) - 1, n)):
            if rp[r] is None or rp[r + 1] is None:
                continue
            cols = cv[rp[r] : rp[r + 1]]
            if any(c is None or not (0 <= c < n) for c in cols):
                v.append((f"C03:col-range:{backend}", f"row {r} cols {cols} n={n}"))
            if any(cols[i] >= cols[i + 1] for i in range(len(cols) - 1) if cols[i] is not None and cols[i + 1] is not None):
                v.append((f"C03:col-order:{backend}", f"row {r} cols {cols}"))
        if any(k[0] == "?" for k in ot.jac):
            v.append((f"C03:unplaced-data:{backend}", f"{[k for k in ot.jac if k[0]=='?'][:4]}"))
        if backend == "cusparse":
            cur = P.sym("cur")
            probs = batch_layout_problems(ot, "JacKernel", {"yistart": P.mul(cur, P.const(n)), "jistart": P.mul(cur, P.const(nnz))})
            yc = (ot.batch.get("JacKernel", {}).get("y_cur") or "").replace(" ", "")
            if yc != "y+yistart":
                probs.append(f"JacKernel: y_cur = {yc!r}, expected y + yistart")
            ud = (ot.batch.get("JacKernel", {}).get("udata") or "").replace(" ", "")
            if ud != "&d_udata[cur]":
                probs.append(f"JacKernel: udata = {ud!r}, expected &d_udata[cur]")
            if ot.lhs_offsets.get("JacKernel", {"jistart"}) != {"jistart"}:
                probs.append("JacKernel: a data target is not offset by jistart")
            if probs:
                v.append((f"C03:batch-layout:{backend}", "; ".join(probs)))
            bad = kernel_reads_base_pointer(ot, "JacKernel")
            if bad:
                v.append((f"C03:kernel-reads-system-0:{backend}", f"JacKernel: {bad} are evaluated on y (the first system of the batch), not on y_cur"))
            d = ot.decls.get("InitJac", {})
            if d.get("rowptrs") != n + 1 or d.get("colvals") != nnz:
                v.append((f"C03:initjac-decl:{backend}", f"{d}"))
            if d.get("rowptrs#init") != d.get("rowptrs") or d.get("colvals#init") != d.get("colvals"):
                # C allows fewer initialisers (zero-fill) but more is ill-formed; either way the layout is wrong
                v.append((f"C03:initjac-init-count:{backend}", f"{d}"))
    # declared array sizes
    for fn, d in ot.decls.items():
        for name, sz in d.items():
            if name == "k" and sz != ot.nreac:
                v.append((f"C03:k-decl:{backend}", f"{fn}: k[{sz}] NREACTIONS={ot.nreac}"))
    # every subscript in bounds
    for fn, arr, i, size, txt in ot.subscripts:
        if i is None:
            if txt.strip() in ("i", "cur", "yistart + i"):
                continue
            raise HarnessError(f"non-constant subscript {arr}[{txt}] in {fn}")
        if size is None:
            if arr in ("u_data", "udata", "d_udata", "abund"):
                continue
            raise HarnessError(f"no declared size known for array {arr} in {fn}")
        if not (0 <= i < size):
            v.append((f"C03:subscript:{arr}:{backend}", f"{fn}: {arr}[{txt}] = {i} outside 0..{size-1}"))
    # k initialised to 0.0 in every function that declares it
    for fn, d in ot.k_init.items():
        for name in ("k",):
            if name in ot.decls.get(fn, {}) and d.get(name) not in ("0.0", "0", "0.0f"):
                v.append((f"C03:k-init:{backend}", f"{fn}: k initialiser {d.get(name)!r}"))
    # pattern file
    pat = files.get("jac_pattern.dat")
    if pat is not None:
        rows = [ln.split() for ln in pat.split("\n") if ln.strip() != ""]
        if len(rows) != n or any(len(r) != n for r in rows):
            v.append((f"C03:pattern-shape:{backend}", f"{len(rows)} rows for n={n}"))
        else:
            marked = {(r, c) for r in range(n) for c in range(n) if rows[r][c] != "0"}
            stored = {k for k in ot.jac if k[0] != "?"}
            if marked != stored:
                v.append((f"C03:pattern:{backend}", f"pattern marks {sorted(marked)[:6]} stored {sorted(stored)[:6]}"))
            if any(x not in ("0", "1") for r in rows for x in r):
                v.append((f"C03:pattern-values:{backend}", "entries other than 0/1"))
    return v


def check_c03_cross(ots: dict):
    """all back-ends hold exactly the same (row, col, value) set"""
    v = []
    base_name = "dense" if "dense" in ots else next(iter(ots))
    base = ots[base_name]
    for b, ot in ots.items():
        if b == base_name:
            continue
        if ot.neq != base.neq or ot.nnz_macro != base.nnz_macro or ot.nreac != base.nreac:
            v.append((f"C03:macros-differ:{b}", f"{b}: neq={ot.neq} nnz={ot.nnz_macro} vs {base_name}: neq={base.neq} nnz={base.nnz_macro}"))
        ka = {k: p for k, p in ot.jac.items()}
        kb = base.jac
        if set(ka) != set(kb):
            v.append((f"C03:entries-differ:{b}", f"{b} has {sorted(set(ka)-set(kb))[:4]} extra, lacks {sorted(set(kb)-set(ka), key=str)[:4]}"))
            continue
        for k in ka:
            if ka[k] != kb[k]:
                v.append((f"C03:value-differs:{b}", f"J{k}: {b}={P.show(ka[k])} {base_name}={P.show(kb[k])}"))
                break
        if ot.ydot != base.ydot:
            v.append((f"C03:rhs-differs:{b}", f"ydot differs between {b} and {base_name}"))
    # NNZ macro equals the number of stored entries of the dense variant as well
    if "dense" in ots and len(ots["dense"].jac) != ots["dense"].nnz_macro:
        v.append((f"C03:nnz-vs-dense", f"NNZ={ots['dense'].nnz_macro} but dense assigns {len(ots['dense'].jac)} entries"))
    return v


# --------------------------------------------------------------------------
# S4: real files, alone and merged pairwise (filelist=[a, b])
def data_files():
    t = REPO / "tests" / "data"
    ex = REPO / "naunet" / "examples"
    cand = [
        (t / "minimal.kida", "kida"),
        (t / "minimal.umist", "umist"),
        (t / "minimal.krome", "krome"),
        (t / "minimal.leeds", "leeds"),
        (t / "minimal.ucl", "uclchem"),
        (t / "duplicate.kida", "kida"),
        (t / "multiduplicate.kida", "kida"),
        (ex / "minimal" / "minimal.kida", "kida"),
    ]
    return [(str(p), f) for p, f in cand if p.exists() and p.stat().st_size > 0]


def enum_S4(tier):
    files = data_files()
    for f in files:
        yield {"files": [list(f)], "family": "S4"}
    singles = files[:5]
    for a in singles:
        for b in singles:
            yield {"files": [list(a), list(b)], "family": "S4"}
    if tier != "quick":
        for a in singles:
            for b in singles:
                yield {"files": [list(a), list(b)], "required": ["He"], "family": "S4"}


def enum_examples(tier):
    """bundled example networks built the way the example command configures them"""
    import importlib

    mod = importlib.import_module("naunet.examples.primordial")
    yield {"example": "primordial", "cooling": list(mod.cooling), "reactions": None, "family": "EX"}
    yield {"example": "primordial", "cooling": [], "reactions": None, "family": "EX"}
    if tier != "quick":
        yield {"example": "deuterium", "cooling": [], "reactions": None, "family": "EX"}


def abstract_reactions_any(desc):
    if desc.get("example"):
        import importlib

        from ..ref.formats import dec_file_species

        mod = importlib.import_module(f"naunet.examples.{desc['example']}")
        path = REPO / "naunet" / "examples" / desc["example"] / mod.files
        allowed = {canon(x) for x in mod.allowed_species}
        out = []
        for r, p in dec_file_species(str(path), mod.formats):
            r = [canon(x) for x in r]
            p = [canon(x) for x in p]
            if allowed and not all(x in allowed for x in r + p):
                continue
            out.append((r, p))
        return out
    if desc.get("files"):
        from ..ref.formats import dec_file_species

        out = []
        for path, fmt in desc["files"]:
            for r, p in dec_file_species(path, fmt):
                out.append(([canon(x) for x in r], [canon(x) for x in p]))
        return out
    return abstract_reactions(desc)
