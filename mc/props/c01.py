"""C01 - generated RHS is the mass-action law of the input network."""
from __future__ import annotations

import itertools

from ..core.runner import HarnessError
from ..ctext.odetext import NotC
from . import odecommon as oc

LEVEL = "exploration"
PROP = "C01"


def cases(tier):
    yield from oc.enum_examples(tier)  # slowest first
    yield from oc.enum_special(tier)
    yield from oc.enum_S1(tier)
    yield from oc.enum_S2(tier)
    yield from oc.enum_S3(tier)
    yield from oc.enum_S4(tier)


def run_case(desc):
    """worker: -> (n_backends, violations[(sig, what, case)], outcome_key)"""
    from ..harness.render import reset_globals

    reset_globals()
    viols = []
    outcome = []
    try:
        net = oc.build_network(desc)
        areacs = oc.abstract_reactions_any(desc)
    except Exception as e:
        return 0, [(f"C01:build-error:{type(e).__name__}", f"network construction raised {e!r}", oc.case_label(desc))], "error"
    for b in oc.ALL_BACKENDS:
        try:
            files, ot, _ = oc.render_and_read(desc, b, net)
        except NotC as e:
            from ..harness.cxx import confirm_not_c

            diag = confirm_not_c(e.stmt)
            viols.append((f"C01:not-c:{b}", f"emitted statement is not C (g++: {diag}): {e.stmt[:160]}", oc.case_label(desc)))
            continue
        except HarnessError:
            raise
        except Exception as e:
            viols.append((f"C01:render-error:{b}:{type(e).__name__}", f"render raised {e!r}", oc.case_label(desc)))
            continue
        for sig, what in oc.check_c01(desc, ot, b, areacs):
            viols.append((sig, what, dict(oc.case_label(desc), backend=b)))
        outcome.append(tuple(sorted((s, tuple(sorted(p.items()))) for s, p in ot.ydot.items())))
    nontrivial = bool(desc.get("reactions") or desc.get("files") or desc.get("example"))
    return len(oc.ALL_BACKENDS), viols, (hash(tuple(outcome)), nontrivial)


def run(ctx):
    allc = list(cases(ctx.tier))
    seen = set()
    uniq = []
    for d in allc:
        key = repr(sorted(oc.case_label(d).items()))
        if key not in seen:
            seen.add(key)
            uniq.append(d)
    evals = 0
    outcomes = set()
    nontriv = 0
    for n, viols, out in ctx.pmap(run_case, uniq, chunksize=1 if len(uniq) < 200 else 4):
        evals += n
        ctx.absorb(viols)
        if out != "error":
            outcomes.add(out[0])
            nontriv += int(out[1])
    fam = {}
    for d in uniq:
        fam[d.get("family", "?")] = fam.get(d.get("family", "?"), 0) + 1
    ctx.assumptions += [
        "rate coefficients k[i], kc[i] are free symbols: equality is decided as a polynomial identity, i.e. for all abundance vectors and rate values",
        "species->identifier rule used by the reference: '#'->'G', '+'->'I' (neutral 'I'), '-'->'M' (documented in Species.alias)",
        "cuSPARSE back-end: kernel *text* is read, never compiled (no CUDA in the image)",
    ]
    return {
        "evaluations": evals,
        "distinct_nontrivial": nontriv,
        "rule": "every network of families SP/S1/S2/S3/S4 (DESIGN C01) x 4 back-ends; a case is one network description, distinct by its description, non-trivial if it has at least one reaction",
        "samples": [oc.case_label(uniq[i]) for i in (0, len(uniq) // 3, len(uniq) // 2, len(uniq) - 1)],
        "networks": len(uniq),
        "duplicates_dropped": len(allc) - len(uniq),
        "families": fam,
        "distinct_rhs_outcomes": len(outcomes),
        "backends": oc.ALL_BACKENDS,
        "exhaustive": True,
    }


def replay(ctx, case):
    case = dict(case)
    case.pop("backend", None)
    n, viols, out = run_case(case)
    ctx.absorb(viols)
