"""C01 - generated RHS is the mass-action law of the input network."""
from __future__ import annotations

import itertools

from ..core.runner import HarnessError
from ..ctext.odetext import NotC
from . import odecommon as oc

LEVEL = "exploration"
PROP = "C01"


def cases(tier):
    yield from oc.enum_examples(tier)  # slowest first
    yield from oc.enum_special(tier)
    yield from oc.enum_S1(tier)
    yield from oc.enum_S2(tier)
    yield from oc.enum_S3(tier)
    yield from oc.enum_S4(tier)


def run_case(desc):
    """worker: -> (n_backends, violations[(sig, what, case)], outcome_key)"""
    from ..harness.render import reset_globals

    reset_globals()
    viols = []
    outcome = []
    try:
        net = oc.build_network(desc)
        areacs = oc.abstract_reactions_any(desc)
    except Exception as e:
        return 0, [(f"C01:build-error:{type(e).__name__}", f"network construction raised {e!r}", oc.case_label(desc))], "error"
    for b in oc.ALL_BACKENDS:
        try:
            files, ot, _ = oc.render_and_read(desc, b, net)
        except NotC as e:
            from ..harness.cxx import confirm_not_c

            diag = confirm_not_c(e.stmt)
            viols.append((f"C01:not-c:{b}", f"emitted statement is not C (g++: {diag}): {e.stmt[:160]}", oc.case_label(desc)))
            continue
        except HarnessError:
            raise
        except Exception as e:
            viols.append((f"C01:render-error:{b}:{type(e).__name__}", f"render raised {e!r}", oc.case_label(desc)))
            continue
        for sig, what in oc.check_c01(desc, ot, b, areacs):
            viols.append((sig, what, dict(oc.case_label(desc), backend=b)))
        outcome.append(tuple(sorted((s, tuple(sorted(p.items()))) for s, p in ot.ydot.items())))
    nontrivial = bool(desc.get("reactions") or desc.get("files") or desc.get("example"))
    return len(oc.ALL_BACKENDS), viols, (hash(tuple(outcome)), nontrivial)


def thermal_compiled_case(cooling):
    """The temperature equation is written in symbols (npar, gamma, kerg, kc[i]) whose values come from helper
    functions and constants of the generated library.  Here the rendered dense sources are compiled and executed:
    d(Tgas)/dt must equal (gamma - 1) * (0 - sum_i kc_i * prod y) / k_B / n_particles with n_particles = the sum of
    the SPECIES abundances, k_B = 1.380658e-16 erg/K (CGS), gamma the user's value or, at the default -1, what
    GetGamma returns, and kc_i the values the compiled EvalCoolingRates returns."""
    from ..ctext.stmts import read_macros
    from ..harness import oderun as OR
    from ..harness.render import render, reset_globals, quiet

    reset_globals()
    from naunet.network import Network
    from naunet.reactions.reaction import Reaction
    from naunet.reactiontype import ReactionType

    case = {"thermal_compiled": list(cooling)}
    with quiet():
        reacs = [Reaction(list(r), list(p_), -1.0, -1.0, 1e-10, 0.0, 0.0, ReactionType.GAS_TWOBODY, i + 1) for i, (r, p_) in enumerate(oc.PRIMORDIAL)]
        # (species are laid out by how often they react; six more reactions of atomic hydrogen put H behind the electron,
        # so that the per-species tables of the helpers are exercised with the electron in the middle of the layout)
        for k_, (r_, p_) in enumerate(((["H", "oH2"], ["H", "H", "H"]), (["H", "H"], ["oH2"]), (["H", "He+"], ["H+", "He"]), (["H", "He++"], ["H+", "He+"]), (["H", "H+"], ["H+", "H"]), (["H", "He"], ["He", "H"]))):
            reacs.append(Reaction(list(r_), list(p_), -1.0, -1.0, 1e-10, 0.0, 0.0, ReactionType.GAS_TWOBODY, 91 + k_))
        net = Network(reacs, cooling=list(cooling))
        if [s_.name for s_ in net.species][-1] in ("e-", "E"):
            raise HarnessError("thermal_compiled_case: the electron is still the last species")
        files = render(net, "dense", OR.TEMPLATES_CVODE)
    mac = read_macros(files["include/naunet_macros.h"])
    neq, nsp = mac.value("NEQUATIONS"), mac.value("NSPECIES")
    slot = {n_[4:]: mac.value(n_) for n_ in mac.text if n_.startswith("IDX_") and not n_.startswith("IDX_ELEM_")}
    alias = {"H": "HI", "H+": "HII", "He": "HeI", "He+": "HeII", "He++": "HeIII", "e-": "eM", "oH2": "oH2I"}
    yvals = [[0.5 + ((7 * i + 3 * g) % 11) / 8.0 for i in range(neq)] for g in range(3)]
    for yv, T in zip(yvals, (8.0e3, 2.5e4, 1.2e4)):
        yv[slot["TGAS"]] = T
    base = {"nH": 1e4, "Tgas": 50.0, "zeta": 1.3e-17, "Av": 1.0, "omega": 0.5}
    plist = [dict(base, mu=-1.0, gamma=-1.0), dict(base, mu=1.3, gamma=1.6), dict(base, mu=1.3, gamma=-1.0)]  # the last one: mu given, gamma left to the library
    res = OR.build_and_run(files, "dense", yvals, plist)
    if "error" in res:
        return 1, [(f"C01:thermal-compiled:{res['error']}", f"cooling {cooling}: {res['detail'][:300]}", case)]
    viols = []
    KB = 1.380658e-16
    for g, (yv, pr, r) in enumerate(zip(yvals, plist, res["runs"])):
        npar = sum(yv[:nsp]) if sorted(v for k_, v in slot.items() if k_ != "TGAS") == list(range(nsp)) else None
        gam = pr["gamma"] if pr["gamma"] >= 0 else r["gamma_helper"]
        tot = 0.0
        for i, name in enumerate(cooling):
            term = r["kc"][i]
            for x in oc.COOLING[name]:
                term *= yv[slot[alias[x]]]
            tot += term
        # the other helpers behind the symbols: mean molecular weight = sum A_i y_i / sum y_i, adiabatic index 5/3
        amass = {"H": 1.0, "H+": 1.0, "He": 4.0, "He+": 4.0, "He++": 4.0, "e-": 0.0, "oH2": 2.0}
        mu_ref = sum(amass[x] * yv[slot[alias[x]]] for x in amass) / npar
        if not (abs(r["mu"] - mu_ref) <= 1e-12 * mu_ref) or not (abs(r["gamma_helper"] - 5.0 / 3.0) <= 1e-15):
            viols.append((f"C01:thermal-compiled:helper", f"cooling {cooling}, state {g}: GetMu returns {r['mu']!r} (mass-number weighted mean {mu_ref!r}), GetGamma returns {r['gamma_helper']!r} (5/3)", case))
            break
        exp = (gam - 1.0) * (0.0 - tot) / KB / npar
        got = r["ydot"][slot["TGAS"]]
        if not (got == exp or abs(got - exp) <= 1e-10 * max(abs(exp), abs(got))):
            why = "number density helper" if abs(r["npar"] - npar) > 1e-12 * npar else "other factor"
            viols.append((f"C01:thermal-compiled:{'npar' if why.startswith('number') else 'value'}", f"cooling {cooling}, state {g}: compiled d(Tgas)/dt = {got!r}, the law with n = sum of species abundances = {npar!r} (GetNumDens returns {r['npar']!r}), gamma = {gam!r}, kc = {r['kc']} gives {exp!r}", case))
            break
    return 1, viols


def run(ctx):
    allc = list(cases(ctx.tier))
    seen = set()
    uniq = []
    for d in allc:
        key = repr(sorted(oc.case_label(d).items()))
        if key not in seen:
            seen.add(key)
            uniq.append(d)
    evals = 0
    outcomes = set()
    nontriv = 0
    for n, viols, out in ctx.pmap(run_case, uniq, chunksize=1 if len(uniq) < 200 else 4):
        evals += n
        ctx.absorb(viols)
        if out != "error":
            outcomes.add(out[0])
            nontriv += int(out[1])
    tc = [["CIC_HI"], ["CIC_HI", "RC_HII"], ["CIC_HeI", "CIC_He_2S", "RC_HeII"]] + ([list(oc.COOLING)] if ctx.tier != "quick" else [])
    for n, viols in ctx.pmap(thermal_compiled_case, tc):
        evals += n
        ctx.absorb(viols)
    fam = {}
    for d in uniq:
        fam[d.get("family", "?")] = fam.get(d.get("family", "?"), 0) + 1
    ctx.assumptions += [
        "rate coefficients k[i], kc[i] are free symbols: equality is decided as a polynomial identity, i.e. for all abundance vectors and rate values",
        "species->identifier rule used by the reference: '#'->'G', '+'->'I' (neutral 'I'), '-'->'M' (documented in Species.alias)",
        "cuSPARSE back-end: the kernel text is read here; C03 executes it on the host",
        "the symbols of the temperature equation are bound to values by compiling and running the dense sources on three states (thermal_compiled_case): particle density = sum of the species abundances, k_B in CGS, gamma = user value or GetGamma at the default",
    ]
    return {
        "evaluations": evals,
        "distinct_nontrivial": nontriv,
        "rule": "every network of families SP/S1/S2/S3/S4 (DESIGN C01) x 4 back-ends; a case is one network description, distinct by its description, non-trivial if it has at least one reaction",
        "samples": [oc.case_label(uniq[i]) for i in (0, len(uniq) // 3, len(uniq) // 2, len(uniq) - 1)],
        "networks": len(uniq),
        "duplicates_dropped": len(allc) - len(uniq),
        "families": fam,
        "distinct_rhs_outcomes": len(outcomes),
        "backends": oc.ALL_BACKENDS,
        "exhaustive": True,
    }


def replay(ctx, case):
    if "thermal_compiled" in case:
        ctx.absorb(thermal_compiled_case(case["thermal_compiled"])[1])
        return
    case = dict(case)
    case.pop("backend", None)
    n, viols, out = run_case(case)
    ctx.absorb(viols)
