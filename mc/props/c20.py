"""C20 - project configuration round trip: what is configured is what is rendered."""
from __future__ import annotations

import hashlib
import importlib
import itertools
import json
import shlex
import shutil
import tempfile
from pathlib import Path

from ..core.runner import HarnessError, guarded
from ..ref import formats as F

LEVEL = "exploration"

BASE = {
    "name": "p", "description": "d", "loading": "", "elements": "", "pseudo-elements": "", "element-replacement": "",
    "surface-prefix": "#", "bulk-prefix": "@", "allowed-species": "", "extra-species": "", "binding": "", "yield": "",
    "grain-symbol": "GRAIN", "grain-model": "", "network-files": "net.kida", "file-formats": "kida", "heating": "", "cooling": "",
    "shielding": "", "rate-modifier": [], "ode-modifier": [], "solver": "cvode", "device": "cpu", "method": "dense",
}
ALPHABET = {
    "name": ["p", "my_proj", "DeutNet", "dark-cloud.v2"],
    "description": ["d", "two words", ""],
    "elements": ["", "e,H,He,C,O", "e, H, He , C, O", "H,C"],
    "pseudo-elements": ["", "CR", "CR,Photon,CRP", "CR, Photon", "CR,\\*"],  # the last: the escaped entry of the default list the prompt offers
    "element-replacement": ["", "HE:He", "HE:He,E:e", "HE : He"],
    "surface-prefix": ["#", "G"],
    "bulk-prefix": ["@", "B", "@@"],
    "allowed-species": ["", "C,CH,H,C2", "C, CH, H, C2", "H,C"],
    "extra-species": ["", "He", "He, e-", "O"],
    "binding": ["", "#CO=1234.0", "#CO=1234.0,#H2O=5000"],
    "yield": ["", "#CO=0.0025", "#CO=0.0025,#H2O=0.004"],
    "grain-symbol": ["GRAIN", "DUST"],
    "grain-model": ["", "hh93", "rr07"],
    "network-files": ["net.kida", "net.kida,net2.umist", "net.kida, net2.umist"],
    "heating": [""],
    "cooling": ["", "CIC_HI", "CIC_HI, RC_HII"],
    "shielding": ["", "CO:V09Table", "H2:L96Table, CO:VB88Table"],
    "rate-modifier": [[], ["4894:0.0"], ["4894:Tgas>10.0 ? 1.0 : 2.0"], ["4894:1e-10*Tgas", "6599:0.0"]],
    "ode-modifier": [[], ["H:-2.0*f,[C CH]"], ["H:f,[C];C2:g,[H H]"], ["C2:0.5*k[1]*y[IDX_CI],[H H]"], ["H:+R,[C];C2:-2*R,[C];H:-D,[C2];C2:+2*D,[C2]"],
                     # the option given several times, each occurrence closed by ';' (the spelling `naunet example` writes)
                     ["H:f,[C];", "C2:g,[H H];"], ["H:f,[C];", "C2:g,[H H]"], ["H:f,[C]", "C2:g,[H H];", "H:-h,[C2]"], ["H:f,[C];C2:g,[H H];"]],
    "solver-triple": [("cvode", "cpu", "dense"), ("cvode", "cpu", "sparse"), ("odeint", "cpu", "rosenbrock4"), ("cvode", "gpu", "cusparse"), ("cvode", "cpu", "rosenbrock4"), ("odeint", "cpu", "dense"), ("odeint", "cpu", "sparse")],
}
LEGAL_TRIPLES = {("cvode", "cpu", "dense"), ("cvode", "cpu", "sparse"), ("odeint", "cpu", "rosenbrock4"), ("cvode", "gpu", "cusparse")}
INTERACTING = ["elements", "element-replacement", "allowed-species", "binding", "surface-prefix", "network-files"]


def configs(tier):
    out = []
    seen = set()

    def add(cfg, why):
        key = json.dumps(cfg, sort_keys=True)
        if key not in seen:
            seen.add(key)
            out.append((cfg, why))

    add(dict(BASE), "base")
    for opt, vals in ALPHABET.items():
        for v in vals:
            cfg = dict(BASE)
            if opt == "solver-triple":
                cfg["solver"], cfg["device"], cfg["method"] = v
            else:
                cfg[opt] = v
            if opt == "network-files" and "," in v:
                cfg["file-formats"] = "kida,umist" if " " not in v else "kida, umist"
            if opt == "cooling" and v:
                cfg["extra-species"] = "H, e-, H+"
            add(cfg, f"single:{opt}")
    # list options closed by a separator (empty items are dropped by every list option), alone and together
    trailing = {"elements": "e,H,He,C,O,", "pseudo-elements": "CR,", "allowed-species": "C,CH,H,C2,", "extra-species": "He,", "network-files": "net.kida,", "file-formats": "kida,", "cooling": "CIC_HI,"}
    for opt, v in trailing.items():
        cfg = dict(BASE)
        cfg[opt] = v
        if opt == "cooling":
            cfg["extra-species"] = "H, e-, H+"
        add(cfg, f"trailing-separator:{opt}")
    cfg = dict(BASE)
    cfg.update({"network-files": "net.kida,net2.umist,", "file-formats": "kida,umist,"})
    add(cfg, "trailing-separator:files+formats")
    cfg = dict(BASE)
    cfg.update({"network-files": "net.kida,,net2.umist", "file-formats": "kida,,umist", "elements": "e,H,He,C,O,"})
    add(cfg, "empty-item:files+formats")
    # a family in which the replacement table actually changes species (upper-case UCLCHEM spelling)
    for rep in ("HE:He,E:e", "HE: He, E: e", "HE:He"):
        for allowed in ("", "HE,HE+,E-,H,H2", "He,He+,e-,H,H2"):
            for extra in ("", "HE++"):
                cfg = dict(BASE)
                cfg.update({"elements": "E,H,HE,C,O", "pseudo-elements": "CRP,PHOTON", "element-replacement": rep, "network-files": "he.ucl",
                            "file-formats": "uclchem", "allowed-species": allowed, "extra-species": extra})
                add(cfg, "family:replacement-effective")
    # a family in which binding energies and yields reach the generated rates (ice chemistry under a dust model)
    for model in ("rr07", "hh93"):
        for binding in ("", "#CO=1300.0", "#CO=1300.0,#H2O=5000", "#H2O=4800.5"):
            for yld in ("", "#CO=0.25", "#CO=0.25,#H2O=0.004", "#H2O=2.5e-3"):
                cfg = dict(BASE)
                cfg.update({"network-files": "ice.ucl", "file-formats": "uclchem", "grain-model": model, "binding": binding, "yield": yld, "extra-species": "H, H2"})
                add(cfg, "family:ice-tables")
    # a key given twice in a table option (an override appended to a list): the later value is the one that counts
    for binding, yld in (("#CO=1100.0,#H2O=4800.0,#CO=1300.0", ""), ("", "#CO=0.001,#H2O=0.004,#CO=0.25"), ("#CO=1100.0,#CO=1300.0", "#H2O=0.004,#H2O=0.002")):
        cfg = dict(BASE)
        cfg.update({"network-files": "ice.ucl", "file-formats": "uclchem", "grain-model": "hh93", "binding": binding, "yield": yld, "extra-species": "H, H2"})
        add(cfg, "family:ice-tables-repeated-keys")
    # ... and the same with table keys that only match a network species after the replacement table was applied
    for rep in ("SI:Si,HE:He,E:e", "SI: Si, HE: He, E: e"):
        for binding in ("", "#SIO=4100.0", "#SIO=4100.0,#CO=1300.0"):
            for yld in ("", "#SIO=0.0025"):
                cfg = dict(BASE)
                cfg.update({"elements": "E,H,HE,C,O,SI", "pseudo-elements": "CRP,PHOTON,CRPHOT", "element-replacement": rep, "network-files": "iceuc.ucl", "file-formats": "uclchem",
                            "grain-model": "rr07", "binding": binding, "yield": yld, "extra-species": "H, H2"})
                add(cfg, "family:ice-tables-replaced-keys")
    # user modules (--loading): each defines a reaction format one of the network files is written in
    for loading, files, fmts in (("fa.py", "net.fa", "fa"), ("fa.py,fb.py", "net.fa,net2.fb", "fa,fb"), ("fa.py, fb.py", "net.fa, net2.fb", "fa, fb"), ("fb.py,fa.py", "net.fa,net2.fb", "fa,fb")):
        cfg = dict(BASE)
        cfg.update({"loading": loading, "network-files": files, "file-formats": fmts})
        add(cfg, "family:loading")
    # ... or a thermal process the --cooling option then names (registered when the module is executed, i.e. at render time)
    for loading, cooling, extra in (("fc.py", "USER_H", ""), ("fc.py", "CIC_HI, USER_H", "e-"), ("fa.py,fc.py", "USER_H,CIC_HI", "e-"), ("fc.py", "USER_H, USER_HE", "He")):
        cfg = dict(BASE)
        cfg.update({"loading": loading, "cooling": cooling, "extra-species": extra})
        if "fa.py" in loading:
            cfg.update({"network-files": "net.fa", "file-formats": "fa"})
        add(cfg, "family:loading-cooling")
    # a family in which the three species symbols decide how the species lists are read
    # (names with the bulk prefix are not readable by the species parser at all, so the bulk symbol only reaches the TOML)
    for grain, surf, bulk in (("GRAIN", "#", "@"), ("DUST", "#", "@"), ("GRAIN", "G", "@"), ("GRAIN", "#", "B"), ("DUST", "G", "B")):
        for extra in (f"{surf}CO, CO", f"{grain}0, {grain}-, e-", f"{surf}CO, {grain}0, CO"):
            for allowed in ("", f"C,CH,H,C2,CO,{surf}CO,{grain}0,{grain}-,e-"):
                cfg = dict(BASE)
                cfg.update({"grain-symbol": grain, "surface-prefix": surf, "bulk-prefix": bulk, "extra-species": extra, "allowed-species": allowed,
                            "binding": f"{surf}CO=1300.0" if surf in extra else ""})
                add(cfg, "family:symbols-effective")
    pool = INTERACTING if tier == "quick" else [o for o in ALPHABET if o not in ("heating",)]
    pairs = list(itertools.combinations(pool, 2))
    for a, b in pairs:
        for va in ALPHABET[a]:
            for vb in ALPHABET[b]:
                cfg = dict(BASE)
                for opt, v in ((a, va), (b, vb)):
                    if opt == "solver-triple":
                        cfg["solver"], cfg["device"], cfg["method"] = v
                    else:
                        cfg[opt] = v
                    if opt == "cooling" and v:
                        cfg["extra-species"] = (cfg["extra-species"] + ", " if cfg["extra-species"] else "") + "H, e-, H+"
                for opt in (a, b):
                    if opt == "network-files" and "," in cfg[opt]:
                        cfg["file-formats"] = "kida,umist" if " " not in cfg[opt] else "kida, umist"
                add(cfg, f"pair:{a}+{b}")
    return out


# ---- reference reading of the option grammar (documented in init's help / example command) ------
def lst(s):
    return [x.strip() for x in s.split(",") if x.strip()] if s else []


def table(s, sep, conv=str):
    out = {}
    for item in s.split(","):
        if not item.strip():
            continue
        k, v = item.split(sep, 1)
        out[k.strip()] = conv(v.strip()) if conv is str else conv(v)
    return out


def requested(cfg):
    om = {}
    for opt in cfg["ode-modifier"]:
        for part in opt.split(";"):
            if not part:
                continue
            key, value = part.split(":", 1)
            fact, deps = value.split(",", 1)
            deps = deps.replace("[", "").replace("]", "").split()
            om.setdefault(key, {"factors": [], "reactants": []})
            om[key]["factors"].append(fact)
            om[key]["reactants"].append(deps)
    rm = {}
    for opt in cfg["rate-modifier"]:
        k, v = opt.split(":", 1)
        rm[k.strip()] = v.strip()
    from naunet.species import Species

    return {
        "name": cfg["name"],
        "description": cfg["description"],
        "loads": lst(cfg["loading"]),
        "elements": lst(cfg["elements"]) if cfg["elements"] else list(Species.default_elements) if False else lst(cfg["elements"]),
        "pseudo_elements": lst(cfg["pseudo-elements"]),
        "replacement": table(cfg["element-replacement"], ":"),
        "symbol": {"grain": cfg["grain-symbol"], "surface": cfg["surface-prefix"], "bulk": cfg["bulk-prefix"]},
        "allowed": lst(cfg["allowed-species"]),
        "required": lst(cfg["extra-species"]),
        "binding_energy": table(cfg["binding"], "=", float),
        "photon_yield": table(cfg["yield"], "=", float),
        "files": lst(cfg["network-files"]),
        "formats": lst(cfg["file-formats"]),
        "grain_model": cfg["grain-model"],
        "heating": lst(cfg["heating"]),
        "cooling": lst(cfg["cooling"]),
        "shielding": table(cfg["shielding"], ":"),
        "rate_modifier": rm,
        "ode_modifier": om,
        "solver": (cfg["solver"], cfg["device"], cfg["method"]),
    }


def toml_description(t):
    ch = t["chemistry"]
    return {
        "name": t["general"]["name"],
        "description": t["general"]["description"],
        "loads": list(t["general"]["loads"]),
        "elements": list(ch["element"]["elements"]),
        "pseudo_elements": list(ch["element"]["pseudo_elements"]),
        "replacement": dict(ch["element"]["replacement"]),
        "symbol": {"grain": ch["symbol"]["grain"], "surface": ch["symbol"]["surface"], "bulk": ch["symbol"]["bulk"]},
        "allowed": list(ch["species"]["allowed"]),
        "required": list(ch["species"]["required"]),
        "binding_energy": {k: float(v) for k, v in ch["species"]["binding_energy"].items()},
        "photon_yield": {k: float(v) for k, v in ch["species"]["photon_yield"].items()},
        "files": list(ch["network"]["files"]),
        "formats": list(ch["network"]["formats"]),
        "grain_model": ch["grain"]["model"],
        "heating": list(ch["thermal"]["heating"]),
        "cooling": list(ch["thermal"]["cooling"]),
        "shielding": dict(ch["shielding"]),
        "rate_modifier": {str(k): str(v) for k, v in ch["rate_modifier"].items()},
        "ode_modifier": {k: {"factors": list(v["factors"]), "reactants": [list(r) for r in v["reactants"]]} for k, v in ch["ode_modifier"].items()},
        "solver": (t["ODEsolver"]["solver"], t["ODEsolver"]["device"], t["ODEsolver"]["method"]),
    }


def tree_digest(root: Path):
    files = {}
    for sub in ("include", "src", "python"):
        d = root / sub
        if d.exists():
            for p in sorted(d.rglob("*")):
                if p.is_file():
                    files[str(p.relative_to(root))] = hashlib.sha256(p.read_bytes()).hexdigest()[:16]
    return files


ODE_FILES = ("src/naunet_fex.cpp", "src/naunet_jac.cpp", "src/naunet_ode.cpp", "src/naunet_fex.cu", "src/naunet_jac.cu")


def semantic_tree(root: Path, method: str):
    """like tree_digest, but the right-hand-side / Jacobian files are reduced to what they compute (exact
    polynomials per slot, sparse layout), because a network written out and read back may list the factors
    of a product in another order"""
    from ..ctext.odetext import read_ode
    from ..ctext import poly as P

    out = tree_digest(root)
    files = {rel: (root / rel).read_text() for rel in ODE_FILES + ("include/naunet_macros.h",) if (root / rel).exists()}
    try:
        ot = read_ode(files, method)
        sem = {
            "ydot": {str(k): P.show(v) for k, v in sorted(ot.ydot.items(), key=lambda kv: str(kv[0]))},
            "jac": {str(k): P.show(v) for k, v in sorted(ot.jac.items(), key=lambda kv: str(kv[0]))},
            "rowptrs": ot.rowptrs, "colvals": ot.colvals,
        }
        for rel in ODE_FILES:
            out.pop(rel, None)
        out["<ode>"] = hashlib.sha256(json.dumps(sem, sort_keys=True, default=str).encode()).hexdigest()[:16]
    except Exception as e:  # unreadable text is C01/C03's business; here fall back to the bytes
        out["<ode>"] = f"unread:{type(e).__name__}"
    return out


def write_inputs(proj: Path):
    proj.mkdir(parents=True, exist_ok=True)
    (proj / "net.kida").write_text(
        "\n".join(
            [
                F.enc_kida(F.AReaction(["C", "CH"], ["H", "C2"], 2.4e-10, 0.0, 0.0, 10, 300, 4894, 3)),
                F.enc_kida(F.AReaction(["H", "C2"], ["C", "CH"], 4.67e-10, 0.5, 30400.0, 10, 800, 6599, 3)),
            ]
        )
        + "\n"
    )
    (proj / "he.ucl").write_text("HE,CRP,NAN,HE+,E-,NAN,NAN,0.5,0.0,0.0,10,41000\nHE+,E-,NAN,HE,NAN,NAN,NAN,1e-11,-0.5,0.0,10,41000\nH2,PHOTON,NAN,H,H,NAN,NAN,1e-10,0.0,2.5,10,41000\n")
    (proj / "ice.ucl").write_text(
        "CO,FREEZE,NAN,#CO,NAN,NAN,NAN,1.0,0.0,0.0,10,41000\nH2O,FREEZE,NAN,#H2O,NAN,NAN,NAN,0.5,0.0,0.0,10,41000\n"
        "#CO,DEUVCR,NAN,CO,NAN,NAN,NAN,1.0,0.0,0.0,10,41000\n#H2O,DEUVCR,NAN,H2O,NAN,NAN,NAN,1.0,0.0,0.0,10,41000\n"
        "#CO,DESCR,NAN,CO,NAN,NAN,NAN,1.0,0.0,0.0,10,41000\n#H2O,DESCR,NAN,H2O,NAN,NAN,NAN,1.0,0.0,0.0,10,41000\n"
    )
    kida2 = F.enc_kida(F.AReaction(["C", "CH"], ["C2", "H"], 6.59e-11, 0.0, 0.0, 10, 300, 5173, 3)) + "\n"
    (proj / "net.fa").write_text((proj / "net.kida").read_text())
    (proj / "net2.fb").write_text(kida2)
    for nm in ("fa", "fb"):
        (proj / f"{nm}.py").write_text(
            "from naunet.network import define_reaction\nfrom naunet.reactions.kidareaction import KIDAReaction\n\n\n"
            f"@define_reaction(\"{nm}\")\nclass Format{nm.upper()}(KIDAReaction):\n    pass\n"
        )
    (proj / "fc.py").write_text(
        "from naunet.thermalprocess import ThermalProcess, supported_cooling_process\n\n"
        "supported_cooling_process[\"USER_H\"] = ThermalProcess([\"H\", \"H\"], \"1.0e-30 * sqrt(Temp)\")\n"
        "supported_cooling_process[\"USER_HE\"] = ThermalProcess([\"He\", \"H\"], \"2.0e-31 * Temp\")\n"
    )
    (proj / "iceuc.ucl").write_text(
        "SIO,FREEZE,NAN,#SIO,NAN,NAN,NAN,1.0,0.0,0.0,10,41000\nCO,FREEZE,NAN,#CO,NAN,NAN,NAN,1.0,0.0,0.0,10,41000\n"
        "#SIO,DEUVCR,NAN,SIO,NAN,NAN,NAN,1.0,0.0,0.0,10,41000\n#CO,DEUVCR,NAN,CO,NAN,NAN,NAN,1.0,0.0,0.0,10,41000\n"
        "#SIO,DESCR,NAN,SIO,NAN,NAN,NAN,1.0,0.0,0.0,10,41000\n#CO,DESCR,NAN,CO,NAN,NAN,NAN,1.0,0.0,0.0,10,41000\n"
    )
    (proj / "net2.umist").write_text(F.enc_umist(F.AReaction(["C", "CH"], ["C2", "H"], 6.59e-11, 0.0, 0.0, 10.0, 300.0, 5173, "NN")) + "\n")


def api_render(desc, proj: Path, out: Path):
    """the equivalent network through the public API (fresh process)"""
    from naunet.network import Network
    from naunet.species import Species
    from naunet.chemistrydata import update_binding_energy, update_photon_yield
    from naunet.templateloader import TemplateLoader
    import os

    kw = {"grain_symbol": desc["symbol"]["grain"], "surface_prefix": desc["symbol"]["surface"], "bulk_prefix": desc["symbol"]["bulk"]}
    Species._replacement = dict(desc["replacement"])  # the one setting without a helper
    if desc["elements"] or desc["pseudo_elements"]:
        Species.set_known_elements(list(desc["elements"]))
        Species.set_known_pseudoelements(list(desc["pseudo_elements"]))
    update_binding_energy({Species(k, **kw).name: v for k, v in desc["binding_energy"].items()})
    update_photon_yield({Species(k, **kw).name: v for k, v in desc["photon_yield"].items()})
    old = os.getcwd()
    os.chdir(proj)
    try:
        for modfile in desc.get("loads", []):
            from importlib import util

            spec = util.spec_from_file_location(modfile, Path(proj) / modfile)
            module = util.module_from_spec(spec)
            spec.loader.exec_module(module)
        net = Network(
            filelist=list(desc["files"]), fileformats=list(desc["formats"]), elements=list(desc["elements"]), pseudo_elements=list(desc["pseudo_elements"]),
            allowed_species=list(desc["allowed"]), required_species=list(desc["required"]), species_kwargs=kw, grain_model=desc["grain_model"],
            heating=list(desc["heating"]), cooling=list(desc["cooling"]), shielding=dict(desc["shielding"]),
            rate_modifier={int(k): v for k, v in desc["rate_modifier"].items()}, ode_modifier=desc["ode_modifier"],
        )
        tl = TemplateLoader(desc["solver"][0], desc["solver"][2], desc["solver"][1])
        tl.render(desc["name"], net, path=out)
        if desc.get("_patch"):
            from naunet.patches import EnzoPatch

            EnzoPatch(desc["solver"][1]).render(net, path=Path(out) / "enzo")
    finally:
        os.chdir(old)


def run_api(arg):
    desc, proj, out = arg
    from ..harness.render import quiet
    import logging

    logging.disable(logging.CRITICAL)
    try:
        with quiet():
            api_render(desc, Path(proj), Path(out))
        return ("ok", tree_digest(Path(out)))
    except Exception as e:
        return ("exc", f"{type(e).__name__}: {e}"[:300])


def run_cfg(arg):
    cfg, why, workroot = arg
    from ..harness.render import quiet
    from ..harness.cli import run_command
    import logging
    import multiprocessing as mp
    import tomlkit

    logging.disable(logging.CRITICAL)
    case = {"cfg": cfg, "why": why}
    viols = []
    work = Path(tempfile.mkdtemp(dir=workroot))
    try:
        proj = work / cfg["name"]
        write_inputs(proj)
        args = []
        for k, v in cfg.items():
            if k in ("rate-modifier", "ode-modifier"):
                for x in v:
                    args.append(f"--{k}={x}")
            else:
                args.append(f"--{k}={v}")
        args += ["--render", "--render-force"]
        legal = (cfg["solver"], cfg["device"], cfg["method"]) in LEGAL_TRIPLES
        from ..harness.isolate import fork_call

        def cli():
            st, o, err, exc = run_command("init", " ".join(shlex.quote(a) for a in args), proj, timeout=180)
            return st, err[:500], (f"{type(exc).__name__}: {exc}"[:300] if exc is not None else None)

        st, err, exc = fork_call(cli)
        excname = exc.split(":")[0] if exc else None
        opt = why.split(":", 1)[1] if ":" in why else why
        if not legal:
            if exc is None and (proj / "naunet_config.toml").exists():
                viols.append((f"C20:illegal-solver-accepted:{cfg['solver']}/{cfg['method']}", f"init accepted solver={cfg['solver']} device={cfg['device']} method={cfg['method']}", case))
            return 1, viols, "refused-illegal"
        try:
            req = requested(cfg)
        except Exception as e:
            raise HarnessError(f"reference option reader failed on {cfg}: {e!r}")
        tfile = proj / "naunet_config.toml"
        if not tfile.exists():
            viols.append((f"C20:init-failed:{opt}:{excname or 'no-config'}", f"init with {why} wrote no configuration: {exc!r} {err[:200]}", case))
            return 1, viols, "init-failed"
        got = toml_description(tomlkit.loads(tfile.read_text()))
        bad = [k for k in req if got[k] != req[k]]
        if bad:
            viols.append((f"C20:toml-field:{'+'.join(bad)}:{opt}", f"init {why}: requested { {k: req[k] for k in bad} } but naunet_config.toml holds { {k: got[k] for k in bad} }", case))
        # the sibling: API render of the requested description in a fresh process
        apiout = work / "api"
        apiout.mkdir()
        proj2 = work / "apiproj"
        write_inputs(proj2)
        kind, val = run_api((req, str(proj2), str(apiout)))
        cli_ok = exc is None and (proj / "src").exists() and any((proj / "src").iterdir())
        if kind == "exc":
            if cli_ok:
                viols.append((f"C20:cli-renders-api-raises:{opt}", f"init {why}: CLI rendered sources but the equivalent API network raises {val}", case))
            return 1, viols, "both-refuse" if not cli_ok else "cli-only"
        if not cli_ok:
            viols.append((f"C20:api-renders-cli-raises:{opt}:{excname or 'none'}", f"init {why}: the equivalent API network renders but the CLI path raises {exc!r}", case))
            return 1, viols, "api-only"
        if why in ("base", "single:solver-triple"):
            # the patch branch of the render command reads the same configuration (device!)
            def cli_patch():
                st2, o2, err2, exc2 = run_command("render", "--patch=enzo --force", proj, timeout=240)
                return st2, err2[:300], (f"{type(exc2).__name__}: {exc2}"[:300] if exc2 is not None else None)

            st2, err2, exc2 = fork_call(cli_patch)
            apiout2 = work / "api2"
            apiout2.mkdir()
            proj3 = work / "apiproj2"
            write_inputs(proj3)
            kind2, val2 = run_api((dict(req, _patch=True), str(proj3), str(apiout2)))
            if exc2 is None and kind2 == "ok":
                a_files = {str(q.relative_to(proj / "enzo")): hashlib.sha256(q.read_bytes()).hexdigest()[:16] for q in sorted((proj / "enzo").rglob("*")) if q.is_file()} if (proj / "enzo").exists() else {}
                b_files = {str(q.relative_to(apiout2 / "enzo")): hashlib.sha256(q.read_bytes()).hexdigest()[:16] for q in sorted((apiout2 / "enzo").rglob("*")) if q.is_file()}
                if a_files != b_files:
                    diff = sorted(k for k in set(a_files) | set(b_files) if a_files.get(k) != b_files.get(k))
                    viols.append((f"C20:patch-differs:{cfg['device']}/{cfg['method']}", f"init {why}: `naunet render --patch enzo` and the API patch for device {cfg['device']} differ in {diff[:5]}", case))
            elif (exc2 is None) != (kind2 == "ok"):
                viols.append((f"C20:patch-one-side-raises:{cfg['device']}/{cfg['method']}", f"init {why}: render --patch enzo: CLI {exc2!r}, API {val2 if kind2 != 'ok' else 'ok'}", case))
        cli = tree_digest(proj)
        if cli != val:
            diff = sorted(k for k in set(cli) | set(val) if cli.get(k) != val.get(k))
            viols.append((f"C20:sources-differ:{opt}", f"init {why}: files {diff[:6]} differ between the CLI rendering and the API rendering of the same description", case))
        return 1, viols, "equal" if cli == val else "differ"
    finally:
        shutil.rmtree(work, ignore_errors=True)



# ---- export path: Network (API) -> export -> TOML -> `naunet render` ---------------------------
EXPORT_ALPHABET = {
    "elements": [[], ["e", "H", "He", "C", "O"]],
    "pseudo_elements": [[], ["CR", "CRP", "Photon"]],
    "allowed": [[], ["C", "CH", "H", "C2"], ["C", "CH", "H", "C2", "CO", "<S>CO", "<G>0", "<G>"]],
    "required": [[], ["He"], ["He", "e-"], ["H", "e-", "H+"]],
    "symbols": [("GRAIN", "#", "@"), ("DUST", "#", "@"), ("GRAIN", "G", "@"), ("GRAIN", "#", "B")],
    "grain_model": ["", "hh93", "rr07"],
    "ice": [False, True],
    "binding": [{}, {"CO": 1234.0}],
    "yield": [{}, {"CO": 0.0025}],
    "cooling": [[], ["CIC_HI"], ["CIC_HI", "RC_HII"]],
    "shielding": [{}, {"CO": "V09Table"}, {"H2": "L96Table", "CO": "VB88Table"}],
    "rate_modifier": [{}, {4894: "0.0"}, {4894: "1e-10*Tgas", 6599: "0.0"}],
    "ode_modifier": [{}, {"H": {"factors": ["-2.0*f"], "reactants": [["C", "CH"]]}}],
    "solver": [("cvode", "cpu", "dense"), ("cvode", "cpu", "sparse"), ("odeint", "cpu", "rosenbrock4"), ("cvode", "gpu", "cusparse")],
}
EXPORT_BASE = {k: v[0] for k, v in EXPORT_ALPHABET.items()}
EXPORT_INTERACTING = ["allowed", "required", "symbols", "grain_model", "ice", "binding", "solver"]


def export_configs(tier):
    out, seen = [], set()

    def add(d, why):
        if d["cooling"] and not {"H", "e-", "H+"} <= set(d["required"]):
            d = dict(d, required=list(d["required"]) + [x for x in ("H", "e-", "H+") if x not in d["required"]])
        if (d["binding"] or d["yield"]) and not d["ice"]:
            d = dict(d, ice=True)
        if d["pseudo_elements"] and not d["elements"]:
            d = dict(d, elements=EXPORT_ALPHABET["elements"][1])
        if d["ice"] and not d["grain_model"]:
            d = dict(d, grain_model="hh93")
        if d["ice"] and d["allowed"] and not any("CO" in a for a in d["allowed"]):
            return
        key = json.dumps(d, sort_keys=True, default=str)
        if key not in seen:
            seen.add(key)
            out.append((d, why))

    add(dict(EXPORT_BASE), "base")
    for k, vals in EXPORT_ALPHABET.items():
        for v in vals:
            add(dict(EXPORT_BASE, **{k: v}), f"single:{k}")
    pool = EXPORT_INTERACTING if tier == "quick" else list(EXPORT_ALPHABET)
    for a, b in itertools.combinations(pool, 2):
        for va in EXPORT_ALPHABET[a]:
            for vb in EXPORT_ALPHABET[b]:
                add(dict(EXPORT_BASE, **{a: va, b: vb}), f"pair:{a}+{b}")
    return out


def run_export_cfg(arg):
    d, why, workroot = arg
    from ..harness.cli import run_command
    from ..harness.isolate import fork_call
    from ..harness.render import quiet
    import logging
    import tomlkit

    logging.disable(logging.CRITICAL)
    case = {"export": d, "why": why}
    opt = why.split(":", 1)[1] if ":" in why else why
    viols = []
    work = Path(tempfile.mkdtemp(dir=workroot))
    try:
        src = work / "in"
        write_inputs(src)
        grain, surf, bulk = d["symbols"]
        kw = {"grain_symbol": grain, "surface_prefix": surf, "bulk_prefix": bulk}
        name = "exp"

        def build_and_export():
            import os
            from naunet.network import Network
            from naunet.species import Species
            from naunet.reactions.reaction import Reaction
            from naunet.reactiontype import ReactionType
            from naunet.chemistrydata import update_binding_energy, update_photon_yield

            try:
                with quiet():
                    if d["elements"] or d["pseudo_elements"]:
                        Species.set_known_elements(list(d["elements"]))
                        Species.set_known_pseudoelements(list(d["pseudo_elements"]))
                    if d["binding"]:
                        update_binding_energy({Species(surf + k, **kw).name: v for k, v in d["binding"].items()})
                    if d["yield"]:
                        update_photon_yield({Species(surf + k, **kw).name: v for k, v in d["yield"].items()})
                    net = Network(
                        filelist=[str(src / "net.kida")], fileformats=["kida"], elements=list(d["elements"]), pseudo_elements=list(d["pseudo_elements"]),
                        allowed_species=[a.replace("<S>", surf).replace("<G>", grain) for a in d["allowed"]],
                        required_species=list(d["required"]), species_kwargs=kw, grain_model=d["grain_model"], cooling=list(d["cooling"]),
                        shielding=dict(d["shielding"]), rate_modifier=dict(d["rate_modifier"]), ode_modifier=json.loads(json.dumps(d["ode_modifier"])),
                    )
                    if d["ice"]:
                        gco = lambda: Species(surf + "CO", **kw)
                        second = ReactionType.GRAIN_DESORB_THERMAL if d["grain_model"].startswith("hh93") else ReactionType.GRAIN_DESORB_PHOTON
                        net.add_reaction(Reaction([Species("CO", **kw)], [gco()], 10.0, 41000.0, 1.0, 0.0, 0.0, ReactionType.GRAIN_FREEZE, 9001))
                        if d["grain_model"].startswith("hh93"):
                            net.add_reaction(Reaction([gco()], [Species("CO", **kw)], 10.0, 41000.0, 1.0, 0.0, 0.0, second, 9002))
                    net.export(name, solver=d["solver"][0], method=d["solver"][2], device=d["solver"][1], prefix=work, overwrite=True)
                    summary = {
                        "species": [s.name for s in net.species],
                        "nreac": len(net.reaction_list),
                        "allowed": list(net.allowed_species),
                        "required": list(net.required_species),
                        "eb": {s.name: s.eb for s in net.species if s.is_surface},
                        "yield": {s.name: s.photon_yield for s in net.species if s.is_surface},
                    }
                return ("ok", summary)
            except Exception as e:
                return ("exc", f"{type(e).__name__}: {e}"[:300])

        kind, val = fork_call(build_and_export)
        if kind == "exc":
            return 1, viols, "api-refuses:" + val[:80] + ":" + why  # the description itself is refused through the API: nothing to round-trip
        proj = work / name
        before = semantic_tree(proj, d["solver"][2])
        t = toml_description(tomlkit.loads((proj / "naunet_config.toml").read_text()))
        req = {
            "name": name,
            "elements": list(d["elements"]), "pseudo_elements": list(d["pseudo_elements"]),
            "symbol": {"grain": grain, "surface": surf, "bulk": bulk},
            "allowed": val["allowed"], "required": val["required"],
            "binding_energy": {k: float(v) for k, v in val["eb"].items()}, "photon_yield": {k: float(v) for k, v in val["yield"].items()},
            "files": ["reactions.naunet"], "formats": ["naunet"], "grain_model": d["grain_model"], "heating": [], "cooling": list(d["cooling"]),
            "shielding": dict(d["shielding"]), "rate_modifier": {str(k): str(v) for k, v in d["rate_modifier"].items()},
            "ode_modifier": json.loads(json.dumps(d["ode_modifier"])), "solver": tuple(d["solver"]),
        }
        bad = [k for k in req if t[k] != req[k]]
        if bad:
            viols.append((f"C20:export-toml-field:{'+'.join(bad)}:{opt}", f"export {why}: network holds { {k: req[k] for k in bad} } but the exported naunet_config.toml holds { {k: t[k] for k in bad} }"[:700], case))

        def cli():
            st, o, err, exc = run_command("render", "--force", proj, timeout=240)
            return st, err[:300], (f"{type(exc).__name__}: {exc}"[:300] if exc is not None else None)

        st, err, exc = fork_call(cli)
        if exc is not None:
            feat = "custom-surface-symbol-ice" if d["ice"] and surf != "#" else "custom-grain-symbol-ice" if d["ice"] and grain != "GRAIN" and "GRAIN" in exc else opt
            viols.append((f"C20:export-rerender-raises:{feat}:{exc.split(':')[0]}", f"export {why}: `naunet render` inside the exported project raises {exc}", case))
            return 1, viols, "rerender-raises"
        after = semantic_tree(proj, d["solver"][2])
        if before != after:
            diff = sorted(k for k in set(before) | set(after) if before.get(k) != after.get(k))
            viols.append((f"C20:export-sources-differ:{opt}", f"export {why}: files {diff[:6]} change when the exported project is re-rendered from its own configuration", case))
        return 1, viols, "equal" if before == after else "differ"
    finally:
        shutil.rmtree(work, ignore_errors=True)


# ---- bundled examples through ExampleCommand ---------------------------------------------------
def run_example(arg):
    idx, name, workroot = arg
    from ..harness.cli import run_command
    from ..harness.render import quiet
    import logging
    import multiprocessing as mp
    import tomlkit

    logging.disable(logging.CRITICAL)
    case = {"example": name, "select": idx}
    viols = []
    work = Path(tempfile.mkdtemp(dir=workroot))
    try:
        proj = work / "proj"
        proj.mkdir()
        from ..harness.isolate import fork_call

        def cli():
            st, o, err, exc = run_command("example", f"--select={idx} --render-force", proj, timeout=600)
            return st, err[:300], (f"{type(exc).__name__}: {exc}"[:300] if exc is not None else None)

        st, err, exc = fork_call(cli)
        tfile = proj / "naunet_config.toml"
        if not tfile.exists() or not (proj / "src").exists():
            viols.append((f"C20:example-failed:{name.split('/')[0]}", f"example {name}: no configuration/sources written: {exc!r}", case))
            return 1, viols
        mod = importlib.import_module(f"naunet.examples.{name.split('/')[0]}")
        got = toml_description(tomlkit.loads(tfile.read_text()))
        exp = {
            "elements": list(mod.elements), "pseudo_elements": list(mod.pseudo_elements), "replacement": dict(mod.element_replacement),
            "allowed": list(mod.allowed_species), "required": list(mod.extra_species),
            "binding_energy": {k: float(v) for k, v in mod.binding_energy.items()}, "photon_yield": {k: float(v) for k, v in mod.photon_yield.items()},
            "files": [mod.files] if mod.files else [], "formats": [mod.formats] if mod.formats else [], "grain_model": mod.grain_model,
            "heating": list(mod.heating), "cooling": list(mod.cooling), "shielding": dict(mod.shielding),
            "rate_modifier": {str(k): str(v) for k, v in mod.rate_modifier.items()},
            "ode_modifier": {k: {"factors": list(v["factors"]), "reactants": [list(r) for r in v["reactants"]]} for k, v in mod.ode_modifier.items()},
        }
        bad = [k for k in exp if got[k] != exp[k]]
        if bad:
            viols.append((f"C20:example-toml:{name.split('/')[0]}:{'+'.join(bad)}", f"example {name}: module says { {k: exp[k] for k in bad} }, configuration holds { {k: got[k] for k in bad} }"[:600], case))
        # API sibling
        req = dict(got)
        req["symbol"] = got["symbol"]
        apiout = work / "api"
        apiout.mkdir()
        kind, val = run_api((dict(req, name=got["name"], solver=got["solver"]), str(proj), str(apiout)))
        if kind == "exc":
            viols.append((f"C20:example-api-raises:{name.split('/')[0]}", f"example {name}: API rendering of the configured description raises {val}", case))
        elif tree_digest(proj) != val:
            cli = tree_digest(proj)
            diff = sorted(k for k in set(cli) | set(val) if cli.get(k) != val.get(k))
            viols.append((f"C20:example-sources-differ:{name.split('/')[0]}", f"example {name}: {diff[:6]} differ between CLI and API rendering", case))
        return 1, viols
    finally:
        shutil.rmtree(work, ignore_errors=True)


EXAMPLES = ["empty/dense", "empty/sparse", "empty/cusparse", "empty/rosenbrock4", "minimal/dense", "minimal/sparse", "minimal/cusparse", "minimal/rosenbrock4",
            "primordial/dense", "primordial/sparse", "primordial/cusparse", "primordial/rosenbrock4", "deuterium/dense", "deuterium/sparse", "deuterium/cusparse",
            "deuterium/rosenbrock4", "cloud/dense", "cloud/sparse", "cloud/rosenbrock4", "ism/dense", "ism/sparse", "ism/cusparse"]


def run(ctx):
    import multiprocessing as mp

    workroot = ctx.scratch / "c20"
    workroot.mkdir(parents=True, exist_ok=True)
    cfgs = configs(ctx.tier)
    outcomes = {}
    n = 0
    with mp.get_context("fork").Pool(ctx.workers, maxtasksperchild=1) as pool:
        for k, viols, outcome in pool.imap_unordered(guarded(run_cfg), [(c, w, str(workroot)) for c, w in cfgs]):
            n += k
            outcomes[outcome] = outcomes.get(outcome, 0) + 1
            ctx.absorb(viols)
        ecfgs = export_configs(ctx.tier)
        eoutcomes = {}
        nexp = 0
        for k, viols, outcome in pool.imap_unordered(guarded(run_export_cfg), [(d, w, str(workroot)) for d, w in ecfgs]):
            nexp += k
            outcome = outcome.split(":")[0]
            eoutcomes[outcome] = eoutcomes.get(outcome, 0) + 1
            ctx.absorb(viols)
        if ctx.tier == "quick":
            ex = [(i, e) for i, e in enumerate(EXAMPLES) if e in ("empty/dense", "minimal/dense", "minimal/rosenbrock4", "primordial/sparse")]
        else:
            ex = [(i, e) for i, e in enumerate(EXAMPLES) if not e.startswith("ism")]
        nex = 0
        for k, viols in pool.imap_unordered(guarded(run_example), [(i, e, str(workroot)) for i, e in ex]):
            nex += k
            ctx.absorb(viols)
    ctx.assumptions += [
        "reference reading of the option grammar: lists are comma separated and stripped; tables are key:value (replacement, shielding) or key=value (binding, yield), comma separated, split at the first separator; rate modifier 'index:expression'; ode modifier 'species:factor,[dep dep]' separated by ';'",
        "the equivalent API network = the requested description applied through public helpers only (Network(...) arguments, chemistrydata.update_binding_energy / update_photon_yield, Species._replacement) and rendered by TemplateLoader in a sibling fresh process; trees include/ src/ python/ must be byte-identical (no date lives in them)",
        "export path: the exported reactions.naunet lists reactants in the writer's canonical order, so the re-rendered right-hand side may list the factors of a product in another order; those files are compared through the C reader (exact polynomial per ydot/Jacobian slot, CSR layout), every other file byte for byte; descriptions that the API itself refuses are counted, not judged",
        "illegal solver/method pairs must be refused; the ism example needs a network file that is not shipped and is not run; the example command's final test-template step raises offline (baseline always-fail) and is tolerated after configuration and sources exist",
    ]
    return {
        "evaluations": n + nex + nexp,
        "distinct_nontrivial": len(cfgs),
        "rule": "every init option alone over its value alphabet around a base configuration, all value pairs of the interacting options (elements, replacement, allowed species, binding, surface prefix, files) in quick, all value pairs of all options in thorough, each through `naunet init --render` in a fresh process; TOML compared field by field with the requested description, sources compared with the API rendering; bundled examples through `naunet example`; export path: API networks over (element lists, allowed/required species, symbols, dust model, ice species, binding/yield, cooling, shielding, modifiers, solver) singly and pairwise -> Network.export -> TOML fields vs the network -> `naunet render --force` inside the exported project -> same files (right-hand side and Jacobian compared as exact polynomials per slot)",
        "samples": [c for c, w in cfgs[:: max(1, len(cfgs) // 4)][:4]],
        "configurations": len(cfgs),
        "examples_run": nex,
        "outcomes": outcomes,
        "export_descriptions": len(ecfgs),
        "export_outcomes": eoutcomes,
        "exhaustive": True,
    }


def replay(ctx, case):
    workroot = ctx.scratch / "c20"
    workroot.mkdir(parents=True, exist_ok=True)
    if "export" in case:
        k, v, o = run_export_cfg((case["export"], case["why"], str(workroot)))
    elif "example" in case:
        k, v = run_example((case["select"], case["example"], str(workroot)))
    else:
        k, v, o = run_cfg((case["cfg"], case["why"], str(workroot)))
    ctx.absorb(v)
