"""C05 - gas-phase rate coefficients follow each database's published rate law.
Deciding evaluation is done by the real compiler on the rendered naunet_rates.cpp."""
from __future__ import annotations

import itertools
import math
import os
import tempfile
from pathlib import Path

from ..core.runner import HarnessError
from ..ctext.cexpr import CSyntaxError, parse_expr
from ..ref import formats as F
from ..ref import ratelaws as L

LEVEL = "exploration"

A_THOROUGH = [0.0, 1.0, -1.0, 2.0, -3.0, 2.5, -2.5, 0.5, -0.5, 1.5, -1.5, -2.0, 3.0, 1.23456789e-3, 1e-10, -3e20, 1e22]
A_QUICK = [0.0, 1.0, -1.0, 2.0, -2.5, 0.5, -0.5, 1.23456789e-3, 1e-10, -3e20]

GRID = [
    {"Tgas": T, "Av": Av, "zeta": z, "zeta_cr": z, "zeta_xr": zx, "omega": 0.5, "G0": g0, "nH": 1e4, "Tdust": 15.0}
    for T in (10.0, 300.0, 1e4)
    for Av in (0.0, 1.0, 30.0)
    for z, zx in ((1.3e-17, 0.0), (1e-14, 2e-17))
    for g0 in (1.0, 100.0)
] + [
    # "all temperatures": below the 10 K where most fits were made, and above 41000 K
    {"Tgas": T, "Av": 1.0, "zeta": 1.3e-17, "zeta_cr": 1.3e-17, "zeta_xr": 0.0, "omega": 0.5, "G0": 1.0, "nH": 1e4, "Tdust": 15.0}
    for T in (3.0, 7.5, 5e4)
]

# (format, code, law name, marker token, reactants, products, tag)
TYPES = []
for code, law, marker in [(1, "cosmicray", "CR"), (2, "photon", "Photon"), (3, "twobody", None), (4, "ionpol1", None), (5, "ionpol2", None)]:
    TYPES.append(("kida", code, law, marker, ["H"] if marker else ["H", "H2"], ["H2", "H"], ""))
for code in ["AD", "CD", "CE", "DR", "IN", "MN", "NN", "RA", "REA", "RR"]:
    TYPES.append(("umist", code, "twobody", None, ["H", "H2"], ["H2", "H"], ""))
TYPES += [
    ("umist", "PH", "photon", "PHOTON", ["H2"], ["H", "H"], ""),
    ("umist", "CP", "umist_cp", "CRP", ["H2"], ["H", "H"], ""),
    ("umist", "CR", "crphot", "CRPHOT", ["H2"], ["H", "H"], ""),
    ("leeds", 1, "twobody", None, ["H", "H2"], ["H2", "H"], ""),
    ("leeds", 2, "leeds_cr", "CRP", ["H"], ["H"], ""),
    ("leeds", 3, "leeds_crphot", "CRPHOT", ["H"], ["H"], ""),
    ("leeds", 4, "leeds_photon", "PHOTON", ["H"], ["H"], ""),
    ("leeds", 4, "leeds_photon_shield", "PHOTON", ["CO"], ["CO"], "CO"),
    ("leeds", 4, "leeds_photon_shield", "PHOTON", ["H2"], ["H2"], "H2"),
    ("leeds", 4, "leeds_photon_shield", "PHOTON", ["N2"], ["N2"], "N2"),
    ("leeds", 5, "zero", "XRAY", ["H"], ["H"], ""),
    ("leeds", 11, "leeds_crphot", "CRPHOT", ["GH"], ["GH"], ""),
    ("leeds", 12, "leeds_photon", "PHOTON", ["GH"], ["GH"], ""),
    ("leeds", 12, "leeds_photon_shield", "PHOTON", ["GCO"], ["GCO"], "CO"),
]
for code in (15, 16, 17, 18, 19):
    TYPES.append(("leeds", code, "zero", None, ["H", "H2"], ["H2", "H"], ""))
TYPES += [
    ("uclchem", "", "twobody", None, ["H", "H2"], ["H2", "H"], ""),
    ("uclchem", "CRP", "ucl_cr", "CRP", ["H"], ["H"], ""),
    ("uclchem", "PHOTON", "ucl_photon", "PHOTON", ["H"], ["H"], ""),
    ("uclchem", "CRPHOT", "ucl_crphot", "CRPHOT", ["H"], ["H"], ""),
    ("uclchem", "PHOTON", "ucl_photon_co", "PHOTON", ["CO"], ["CO"], "CO"),
    # species whose names are sub-/super-strings of the specially treated ones must get the plain law
    ("uclchem", "PHOTON", "ucl_photon", "PHOTON", ["C"], ["C"], ""),
    ("uclchem", "PHOTON", "ucl_photon", "PHOTON", ["O"], ["O"], ""),
    ("uclchem", "PHOTON", "ucl_photon", "PHOTON", ["CO2"], ["CO2"], ""),
    ("leeds", 4, "leeds_photon", "PHOTON", ["C"], ["C"], ""),
    ("leeds", 4, "leeds_photon", "PHOTON", ["N"], ["N"], ""),
    ("leeds", 4, "leeds_photon", "PHOTON", ["CO2"], ["CO2"], ""),
    ("leeds", 12, "leeds_photon", "PHOTON", ["GC"], ["GC"], ""),
    ("leeds", 12, "leeds_photon", "PHOTON", ["GCO2"], ["GCO2"], ""),
    # ... and so must the ions of the shielded molecules
    ("leeds", 4, "leeds_photon", "PHOTON", ["CO+"], ["CO+"], ""),
    ("leeds", 4, "leeds_photon", "PHOTON", ["H2+"], ["H2+"], ""),
    ("leeds", 4, "leeds_photon", "PHOTON", ["N2+"], ["N2+"], ""),
    ("uclchem", "PHOTON", "ucl_photon", "PHOTON", ["CO+"], ["CO+"], ""),
    ("uclchem", "PHOTON", "ucl_photon", "PHOTON", ["H2+"], ["H2+"], ""),
]
for code, law, marker in [(100, "twobody", None), (101, "cosmicray", "CR"), (102, "photon", "PHOTON"), (110, "ionpol1", None), (111, "ionpol2", None), (120, "crphot", "CRPHOT"), (1000, "zero", None)]:
    TYPES.append(("naunet", code, law, marker, ["H"] if marker else ["H", "H2"], ["H2", "H"], ""))
    TYPES.append(("api", code, law, marker, ["H"] if marker else ["H", "H2"], ["H2", "H"], ""))


def fit(x: float, width: int) -> str | None:
    for spec in ("r", ".3e", ".2E", ".1E", ".0E", ".2f", ".1f", "g"):
        t = repr(float(x)) if spec == "r" else format(x, spec)
        if len(t) <= width and float(t) == x:
            return t
    return None


def encode(fmt, code, marker, reac, prod, a, b, c, idx, tmin=1.0, tmax=99999.0):
    r = F.AReaction(list(reac), list(prod), a, b, c, tmin, tmax, idx, code, marker)
    if fmt == "kida":
        return F.enc_kida(r)
    if fmt == "umist":
        return F.enc_umist(r)
    if fmt == "uclchem":
        return F.enc_uclchem(r)
    if fmt == "naunet":
        return F.enc_naunet(r)
    if fmt == "leeds":
        fa, fb, fc = fit(a, 8), fit(b, 9), fit(c, 10)
        if None in (fa, fb, fc):
            return None
        if not 0 <= idx < 100000:
            return None  # the I5 index column cannot carry it
        reacs = list(reac) + ([marker] if marker else [])
        s = f"{idx:<5d}"
        s += "".join(f"{x:<10}" for x in reacs + [""] * (3 - len(reacs)))
        s += "".join(f"{x:<10}" for x in list(prod) + [""] * (5 - len(prod)))
        s += f"{fa:>8}{fb:>9}{fc:>10}{int(tmin):5d}{int(tmax):5d}{int(code):3d}"
        return s
    raise HarnessError(fmt)


def printed(fmt, x, which):
    """the value the line actually carries (after the format's own rounding)"""
    if fmt in ("kida",):
        return float(f"{x:10.3e}")
    if fmt == "naunet":
        return float(f"{x:10.3e}")
    return float(x)


def reference(law, a, b, c, p, helpers):
    if law == "leeds_photon_shield":
        return L.leeds_photon(a, b, c, p, helpers["shield"])
    if law == "ucl_photon_co":
        return L.ucl_photon_co(a, b, c, p, helpers["shield"], helpers["scatter"])
    return getattr(L, law)(a, b, c, p)


def packs(tier):
    A = A_QUICK if tier == "quick" else A_THOROUGH
    by_fmt = {}
    for t in TYPES:
        by_fmt.setdefault(t[0], []).append(t)
    out = []
    for fmt, types in by_fmt.items():
        cases = []
        for t in types:
            for a, b, c in itertools.product(A, repeat=3):
                cases.append((t, a, b, c))
        size = 640
        for i in range(0, len(cases), size):
            out.append((fmt, cases[i : i + size]))
    return out


def fused(expr):
    import re

    m = re.search(r"(\+\+|--|\(\s*\)|\*\s*\*|/\s*/)", expr)
    ctx = expr[max(0, m.start() - 4) : m.end()] if m else "?"
    return "".join(ctx.split())


def sign_class(a, b, c):
    def s(x):
        return "0" if x == 0 else ("-" if x < 0 else "+")

    return f"a{s(a)}b{s(b)}c{s(c)}"


def run_pack(arg):
    fmt, cases = arg
    from ..harness.render import render, reset_globals, scratch, quiet
    from ..harness import ratesrun as RR
    from ..harness.cxx import confirm_not_c

    reset_globals()
    from naunet.network import Network
    from naunet.reactions.reaction import Reaction
    from naunet.reactiontype import ReactionType

    viols = []
    kept = []  # (type tuple, a, b, c) as carried by the line
    tmp = Path(tempfile.mkdtemp(dir=scratch()))
    skipped = 0
    try:
        if fmt == "api":
            reacs = []
            for (t, a, b, c) in cases:
                _, code, law, marker, reac, prod, tag = t
                reacs.append(
                    Reaction(list(reac) + ([marker] if marker else []), list(prod), 1.0, 99999.0, a, b, c, ReactionType(code), len(reacs) + 1)
                )
                kept.append((t, a, b, c))
            with quiet():
                net = Network(reacs)
        else:
            lines = []
            for (t, a, b, c) in cases:
                _, code, law, marker, reac, prod, tag = t
                ln = encode(fmt, code, marker, reac, prod, a, b, c, len(lines) + 1)
                if ln is None:
                    skipped += 1
                    continue
                lines.append(ln)
                kept.append((t, printed(fmt, a, "a"), printed(fmt, b, "b"), printed(fmt, c, "c")))
            f = tmp / f"pack.{fmt}"
            f.write_text("\n".join(lines) + "\n")
            kw = {}
            if fmt == "leeds":
                kw["species_kwargs"] = {"surface_prefix": "G"}
            if fmt in ("leeds", "uclchem"):
                # shielded laws reference IDX_COI / IDX_H2I: keep both species in every pack
                kw["required_species"] = ["CO", "H2"]
            if fmt == "leeds":
                # with the tables selected the helpers return real factors, so the column densities the emitted rate
                # hands them (N(H2) = 0.5*1.59e21*Av, N(CO) = N(N2) = 1e-5 N(H2)) are part of what is compared
                kw["required_species"] = ["CO", "H2", "N2"]
                kw["shielding"] = {"H2": "L96Table", "CO": "V09Table", "N2": "L13Table"}
            with quiet():
                net = Network(filelist=str(f), fileformats=fmt, **kw)
            if len(net.reaction_list) != len(lines):
                return 0, [(f"C05:pack-size:{fmt}", f"{len(lines)} data lines gave {len(net.reaction_list)} reactions", {"fmt": fmt})], skipped, 0
        try:
            files = render(net, "dense", RR.RATE_TEMPLATES_CVODE)
        except Exception as e:
            # isolate the reaction that makes generation fail
            for i, r in enumerate(net.reaction_list):
                try:
                    r.rateexpr(None)
                except Exception as e2:
                    t, a, b, c = kept[i]
                    viols.append((f"C05:generation-error:{t[0]}:{t[1]}:{type(e2).__name__}", f"rateexpr raised {e2!r} for {t[:3]} a={a} b={b} c={c}", {"fmt": t[0], "code": t[1], "a": a, "b": b, "c": c}))
                    break
            else:
                viols.append((f"C05:render-error:{fmt}:{type(e).__name__}", f"{e!r}", {"fmt": fmt}))
            return len(kept), viols, skipped, 0
        stmts, decls, macros = RR.read_rate_statements(files)
        if [s["index"] for s in stmts] != list(range(len(kept))):
            raise HarnessError(f"rate statements {len(stmts)} vs reactions {len(kept)}")
        src = files["src/naunet_rates.cpp"]
        bad = set()
        for s in stmts:
            try:
                parse_expr(s["expr"])
            except CSyntaxError as e:
                diag = confirm_not_c(s["stmt"])
                t, a, b, c = kept[s["index"]]
                viols.append(
                    (
                        f"C05:not-c:{'native' if t[0] in ('api', 'naunet') else t[0]}:{t[1]}:{fused(s['expr'])}",
                        f"emitted rate is not C (g++: {diag}): {s['stmt'][:160]}",
                        {"fmt": t[0], "code": t[1], "law": t[2], "a": a, "b": b, "c": c, "type": list(t)},
                    )
                )
                bad.add(s["index"])
                src = RR.patch_statement(src, s["index"])
        files = dict(files)
        files["src/naunet_rates.cpp"] = src
        # helper values the shielded laws need (taken from the compiled helpers themselves)
        helpers = []
        if "IDX_COI" in macros.text:
            helpers.append("GetShieldingFactor(IDX_COI, 0.5*1.59e21*Av, 1e-5 * (0.5*1.59e21*Av), Tgas, %d)" % (1 if fmt == "uclchem" else 0))
            if fmt == "uclchem":
                helpers.append("GetGrainScattering(Av, GetCharactWavelength(0.5*1.59e21*Av, 1e-5 * (0.5*1.59e21*Av)))")
        if "IDX_N2I" in macros.text and fmt == "leeds":
            helpers.append("GetShieldingFactor(IDX_N2I, 0.5*1.59e21*Av, 1e-5 * (0.5*1.59e21*Av), Tgas, 0)")
        if "IDX_H2I" in macros.text and fmt == "leeds":
            helpers.append("GetShieldingFactor(IDX_H2I, 0.5*1.59e21*Av, 0.5*1.59e21*Av, Tgas, 0)")
        fields = [f for f, _ in RR.data_fields(files)]
        grid = [{k: v for k, v in g.items() if k in fields} for g in GRID]
        res = RR.build_and_run(files, grid, helpers=helpers)
        if res.get("compile_error"):
            err = res["compile_error"]
            first = next((ln for ln in err.splitlines() if "error" in ln), err[:300])
            viols.append((f"C05:compile-error:{fmt}", f"g++ rejects the rendered rates: {first[:300]}", {"fmt": fmt}))
            return len(kept), viols, skipped, 0
        if res.get("run_error"):
            raise HarnessError(res["run_error"])
        nval = 0
        for i, (t, a, b, c) in enumerate(kept):
            if i in bad:
                continue
            law = t[2]
            for gi, g in enumerate(GRID):
                hv = res["helpers"][gi]
                h = {}
                if t[6] == "CO":
                    h["shield"] = hv[0]
                    if fmt == "uclchem":
                        h["scatter"] = hv[1]
                elif t[6] == "N2":
                    h["shield"] = hv[1]
                elif t[6] == "H2":
                    h["shield"] = hv[-1]
                exp = reference(law, a, b, c, g, h)
                got = res["k"][gi][i]
                nval += 1
                if not L.same(got, exp):
                    viols.append(
                        (
                            f"C05:value:{t[0]}:{t[1]}:{law}",
                            f"{t[0]} type {t[1]} a={a} b={b} c={c} at {g}: compiled EvalRates gives {got!r}, law {law} gives {float(exp)!r}; statement {stmts[i]['stmt'][:140]}",
                            {"fmt": t[0], "code": t[1], "law": law, "a": a, "b": b, "c": c, "type": list(t)},
                        )
                    )
                    break
        return len(kept), viols, skipped, nval
    finally:
        import shutil

        shutil.rmtree(tmp, ignore_errors=True)


def refusals():
    """types a format documents as not implemented must raise at generation time"""
    from ..harness.render import reset_globals, quiet

    reset_globals()
    from naunet.network import Network

    out = []
    r = F.AReaction(["H", "H"], ["H2"], 1.0, 0.0, 0.0, 10, 300, 1, 6, None)
    with quiet():
        net = Network()
        net.add_reaction((F.enc_kida(r), "kida"))
    try:
        txt = net.reaction_list[0].rateexpr()
        out.append(("C05:kida-threebody-not-refused", f"KIDA formula 6 (three-body, documented as not implemented) produced {txt!r}", {"fmt": "kida", "code": 6}))
    except (NotImplementedError, RuntimeError):
        pass
    return out


NODE_DRIVER = r"""
#include <math.h>
#include <stdio.h>
#include "naunet_macros.h"
#include "naunet_constants.h"
#include "naunet_physics.h"
#define NX(a) ((int)(sizeof(a) / sizeof(a[0])))
static long judged = 0, skipped = 0, bad = 0, edges = 0;
static char first[400] = "";
static void judge(const char *tab, int i, int j, int k, double want, double got) {
    judged++;
    if (!(fabs(got - want) <= 1e-9 * fabs(want))) {
        if (!bad) snprintf(first, sizeof first, "%s node (%d,%d,%d): table value %.17g, helper returns %.17g", tab, i, j, k, want, got);
        bad++;
    }
}
static int pos(double v) { return v > 0.0 && isfinite(v); }
int main() {
#ifdef VERIF_H2
    for (int i = 0; i < NX(H2ShieldingTableX); i++) {
        int ok = pos(H2ShieldingTableX[i]) && pos(H2ShieldingTable[i]);
        for (int d = -1; d <= 1 && ok; d++) if (i + d >= 0 && i + d < NX(H2ShieldingTableX)) ok = pos(H2ShieldingTable[i + d]) && pos(H2ShieldingTableX[i + d]);
        if (!ok) { skipped++; continue; }
        judge("H2 (L96)", i, 0, 0, H2ShieldingTable[i], GetH2shieldingInt(H2ShieldingTableX[i]));
    }
#endif
#define CUBE(NAME, X, Y, Z, T, F)                                                                          \
    for (int i = 0; i < NX(X); i++) for (int j = 0; j < NX(Y); j++) for (int k = 0; k < NX(Z); k++) {         \
        int ok = pos(X[i]) && pos(Y[j]) && pos(Z[k]);                                                         \
        for (int a = -1; a <= 1 && ok; a++) for (int b = -1; b <= 1 && ok; b++) for (int c = -1; c <= 1 && ok; c++) { \
            int ii = i + a, jj = j + b, kk = k + c;                                                           \
            if (ii < 0 || jj < 0 || kk < 0 || ii >= NX(X) || jj >= NX(Y) || kk >= NX(Z)) continue;            \
            ok = pos(T[ii][jj][kk]) && pos(X[ii]) && pos(Y[jj]) && pos(Z[kk]);                                \
        }                                                                                                     \
        if (!ok) { skipped++; continue; }                                                                     \
        judge(NAME, i, j, k, T[i][j][k], F(X[i], Y[j], Z[k]));                                                \
    }
/* between two adjacent nodes along one axis (the other arguments on nodes) any interpolation that is monotone within
   a cell gives a value STRICTLY between the two node values when they differ: judged at the log-midpoint of every edge
   whose end nodes are both judged */
#define OKNODE(X, Y, Z, T, i, j, k) ([&]() {                                                                  \
        for (int a = -1; a <= 1; a++) for (int b = -1; b <= 1; b++) for (int c = -1; c <= 1; c++) {           \
            int ii = (i) + a, jj = (j) + b, kk = (k) + c;                                                     \
            if (ii < 0 || jj < 0 || kk < 0 || ii >= NX(X) || jj >= NX(Y) || kk >= NX(Z)) continue;            \
            if (!(pos(T[ii][jj][kk]) && pos(X[ii]) && pos(Y[jj]) && pos(Z[kk]))) return 0;                    \
        }                                                                                                     \
        return 1; }())
#define EDGES(NAME, X, Y, Z, T, F)                                                                            \
    for (int i = 0; i < NX(X); i++) for (int j = 0; j < NX(Y); j++) for (int k = 0; k < NX(Z); k++)           \
        for (int ax = 0; ax < 3; ax++) {                                                                      \
            int i2 = i + (ax == 0), j2 = j + (ax == 1), k2 = k + (ax == 2);                                   \
            if (i2 >= NX(X) || j2 >= NX(Y) || k2 >= NX(Z)) continue;                                          \
            if (!OKNODE(X, Y, Z, T, i, j, k) || !OKNODE(X, Y, Z, T, i2, j2, k2)) continue;                    \
            double t0 = T[i][j][k], t1 = T[i2][j2][k2], lo = fmin(t0, t1), hi = fmax(t0, t1);                 \
            if (!(hi - lo > 1e-6 * hi)) continue;                                                             \
            double got = F(sqrt(X[i] * X[i2]), sqrt(Y[j] * Y[j2]), sqrt(Z[k] * Z[k2]));                       \
            edges++;                                                                                          \
            if (!(got > lo * (1 + 1e-9) && got < hi * (1 - 1e-9))) {                                          \
                if (!bad) snprintf(first, sizeof first, "%s midpoint of the edge (%d,%d,%d)-(%d,%d,%d): node values %.17g and %.17g, helper returns %.17g (not strictly between)", NAME, i, j, k, i2, j2, k2, t0, t1, got); \
                bad++;                                                                                        \
            }                                                                                                 \
        }
#ifdef VERIF_H2
    for (int i = 0; i + 1 < NX(H2ShieldingTableX); i++) {
        int ok = 1;
        for (int d = -1; d <= 2 && ok; d++) if (i + d >= 0 && i + d < NX(H2ShieldingTableX)) ok = pos(H2ShieldingTable[i + d]) && pos(H2ShieldingTableX[i + d]);
        if (!ok) continue;
        double t0 = H2ShieldingTable[i], t1 = H2ShieldingTable[i + 1], lo = fmin(t0, t1), hi = fmax(t0, t1);
        if (!(hi - lo > 1e-6 * hi)) continue;
        double got = GetH2shieldingInt(sqrt(H2ShieldingTableX[i] * H2ShieldingTableX[i + 1]));
        edges++;
        if (!(got > lo * (1 + 1e-9) && got < hi * (1 - 1e-9))) {
            if (!bad) snprintf(first, sizeof first, "H2 (L96) midpoint of the interval %d-%d: node values %.17g and %.17g, helper returns %.17g (not strictly between)", i, i + 1, t0, t1, got);
            bad++;
        }
    }
#endif
#ifdef VERIF_CO
    EDGES("CO (V09)", COShieldingTableX, COShieldingTableY, COShieldingTableZ, COShieldingTable, GetCOshieldingInt)
#endif
#ifdef VERIF_N2
    EDGES("N2 (L13)", N2ShieldingTableX, N2ShieldingTableY, N2ShieldingTableZ, N2ShieldingTable, GetN2shieldingInt)
#endif
#ifdef VERIF_CO
    CUBE("CO (V09)", COShieldingTableX, COShieldingTableY, COShieldingTableZ, COShieldingTable, GetCOshieldingInt)
#endif
#ifdef VERIF_N2
    CUBE("N2 (L13)", N2ShieldingTableX, N2ShieldingTableY, N2ShieldingTableZ, N2ShieldingTable, GetN2shieldingInt)
#endif
#ifdef VERIF_COVB
    /* van Dishoeck & Black 1988: a 2-D spline over log10 columns, arguments clamped to the table range */
    for (int i = 0; i < NX(COShieldingTableX); i++) for (int j = 0; j < NX(COShieldingTableY); j++) {
        double want = pow(10.0, COShieldingTable[i][j]);
        judge("CO (VB88)", i, j, 0, want, GetCOshieldingInt1(pow(10.0, COShieldingTableX[i]), pow(10.0, COShieldingTableY[j])));
        /* beyond an edge the argument is clamped to the edge: the edge node's value */
        if (i == 0) judge("CO (VB88) below the H2 range", i, j, 0, want, GetCOshieldingInt1(pow(10.0, COShieldingTableX[i] - 2.0), pow(10.0, COShieldingTableY[j])));
        if (i == NX(COShieldingTableX) - 1) judge("CO (VB88) above the H2 range", i, j, 0, want, GetCOshieldingInt1(pow(10.0, COShieldingTableX[i] + 2.0), pow(10.0, COShieldingTableY[j])));
        if (j == 0) judge("CO (VB88) below the CO range", i, j, 0, want, GetCOshieldingInt1(pow(10.0, COShieldingTableX[i]), pow(10.0, COShieldingTableY[j] - 2.0)));
        if (j == NX(COShieldingTableY) - 1) judge("CO (VB88) above the CO range", i, j, 0, want, GetCOshieldingInt1(pow(10.0, COShieldingTableX[i]), pow(10.0, COShieldingTableY[j] + 2.0)));
    }
#endif
    FILE *o = fopen("nodes.txt", "w");
    fprintf(o, "%ld %ld %ld %ld\n%s\n", judged, skipped, bad, edges, first);
    fclose(o);
    return 0;
}
"""


def shielding_nodes(which):
    """The tabulated shielding functions (H2: Lee+1996, CO: Visser+2009, N2: Li+2013) enter the photo-rates as a
    factor the generated helper interpolates from the generated table.  Whatever the interpolation scheme, at a
    table node it must give back the table value: the compiled helper is called at EVERY node of the generated
    table (nodes with a non-positive neighbour are not judged: the log-space scheme is undefined there)."""
    import shutil
    import tempfile
    from pathlib import Path

    from ..harness import ratesrun as RR
    from ..harness.cxx import GXX, SHIM, run as runcmd
    from ..harness.render import render, reset_globals, quiet, scratch

    reset_globals()
    from naunet.network import Network
    from naunet.reactions.reaction import Reaction
    from naunet.reactiontype import ReactionType

    table = {"H2": "L96Table", "CO": "V09Table", "N2": "L13Table", "COVB": "VB88Table"}[which]
    case = {"shielding_nodes": which}
    with quiet():
        net = Network([Reaction(["H", "H"], ["H2"], -1.0, -1.0, 1e-17, 0.0, 0.0, ReactionType.GAS_TWOBODY, 1)], required_species=["H2", "CO", "N2", "H"], shielding={which.replace("COVB", "CO"): table})
        files = render(net, "dense", RR.RATE_TEMPLATES_CVODE)
    d = Path(tempfile.mkdtemp(dir=scratch()))
    try:
        for rel, text in files.items():
            p_ = d / rel
            p_.parent.mkdir(parents=True, exist_ok=True)
            p_.write_text(text)
        (d / "driver.cpp").write_text(NODE_DRIVER)
        srcs = [x for x in ("src/naunet_constants.cpp", "src/naunet_physics.cpp", "src/naunet_utilities.cpp") if (d / x).exists()]
        rc, so, se = runcmd([GXX, "-std=c++17", "-w", "-O0", "-g", "-fsanitize=address,undefined", "-fno-sanitize-recover=all", f"-DVERIF_{which}", "-I", str(SHIM), "-I", "include", *srcs, "driver.cpp", "-o", "drv", "-lm"], cwd=str(d), timeout=600)
        if rc != 0:
            first = next((ln for ln in se.splitlines() if "error" in ln), se[:200])
            return which, [0, 0], [(f"C05:shielding-nodes:{which}:compile", f"{which} {table}: {first[:300]}", case)]
        import subprocess

        pr = subprocess.run(["./drv"], cwd=str(d), capture_output=True, timeout=600, env={"ASAN_OPTIONS": "detect_leaks=0"})
        if pr.returncode != 0:
            err = pr.stderr.decode(errors="replace")
            head = next((ln for ln in err.splitlines() if "ERROR: AddressSanitizer" in ln or "runtime error" in ln), err[:300])
            return which, [0, 0], [(f"C05:shielding-nodes:{which}:sanitizer", f"{which} {table}: evaluating the helper at the table nodes: {head[:300]}", case)]
        l1, l2 = ((d / "nodes.txt").read_text().split("\n") + [""])[:2]
        judged, skipped, bad, edges = (int(x) for x in l1.split())
        if judged == 0:
            raise HarnessError(f"shielding nodes {which}: nothing judged (skipped {skipped})")
        if bad:
            return which, [judged, edges], [(f"C05:shielding-nodes:{which}", f"{which} {table}: at {bad} of {judged} table nodes and {edges} edge midpoints the compiled helper does not return the table value (node) or a value strictly between the two node values (edge midpoint); first: {l2}", case)]
        return which, [judged, edges], []
    finally:
        shutil.rmtree(d, ignore_errors=True)


def ucl_helpers(_):
    """the helper functions UCLCHEM's CO photodissociation law is written in - dust-scattering attenuation (Wagenblast
    & Hartquist 1989) over tau(lambda)/tau(V) (Savage & Mathis 1979) and the mean band wavelength (van Dishoeck &
    Black 1988 eq. 4) - compiled from the generated sources and compared with a second transcription on a grid that
    brackets every branch point (tl = 1, exponent = 35, table nodes, clipping of lambda-bar)"""
    from ..harness import ratesrun as RR
    from ..harness.render import render, reset_globals, quiet

    reset_globals()
    from naunet.network import Network
    from naunet.reactions.reaction import Reaction
    from naunet.reactiontype import ReactionType

    with quiet():
        net = Network([Reaction(["H", "H"], ["H2"], -1.0, -1.0, 1e-17, 0.0, 0.0, ReactionType.GAS_TWOBODY, 1)], required_species=["H2", "CO", "H"])
        files = render(net, "dense", RR.RATE_TEMPLATES_CVODE)
    avs = [0.0, 0.05, 0.2, 0.22, 0.3, 0.5, 0.8, 1.0, 1.086, 1.2, 2.0, 5.0, 8.0, 10.0, 20.0, 60.0]
    wls = [800.0, 910.0, 913.0, 930.0, 1000.0, 1025.0, 1076.0, 1100.0, 2190.0, 5500.0, 33999.0, 34000.0, 50000.0]
    exprs, want = [], []
    for av in avs:
        for wl in wls:
            exprs.append(f"GetGrainScattering({av!r}, {wl!r})")
            want.append(("scatter", (av, wl), L.ucl_scatter(av, wl)))
    for h2 in (0.0, 1e18, 1e20, 8e20, 1e22, 1e24):
        for co in (0.0, 1e12, 1e15, 1e17, 1e19):
            exprs.append(f"GetCharactWavelength({h2!r}, {co!r})")
            want.append(("lambda-bar", (h2, co), L.vdb88_lambda_bar(h2, co)))
    fields = [f for f, _ in RR.data_fields(files)]
    grid = [{k: v for k, v in GRID[0].items() if k in fields}]
    res = RR.build_and_run(files, grid, helpers=exprs)
    if res.get("compile_error"):
        first = next((ln for ln in res["compile_error"].splitlines() if "error" in ln), "")
        return 0, [("C05:ucl-helpers:compile", first[:300], {"ucl_helpers": True})]
    if res.get("run_error"):
        raise HarnessError(res["run_error"])
    got = res["helpers"][0]
    viols = []
    for (kind, arg, ref), g in zip(want, got):
        if not L.same(g, ref, 1e-12):
            viols.append((f"C05:ucl-helpers:{kind}", f"generated {'GetGrainScattering' if kind == 'scatter' else 'GetCharactWavelength'}{arg} = {g!r}, UCLCHEM's routine gives {ref!r}", {"ucl_helpers": True}))
            break
    return len(want), viols


def run(ctx):
    ps = packs(ctx.tier)
    total = nval = skipped = 0
    ctx.absorb(refusals())
    for n, viols, sk, nv in ctx.pmap(run_pack, ps):
        total += n
        nval += nv
        skipped += sk
        ctx.absorb(viols)
    nodes = {}
    for which, n, viols in ctx.pmap(shielding_nodes, ["H2", "CO", "N2", "COVB"]):
        nodes[which] = {"nodes": n[0], "edge_midpoints": n[1]} if n else {"nodes": 0, "edge_midpoints": 0}
        nval += sum(n) if n else 0
        ctx.absorb(viols)
    for n, viols in ctx.pmap(ucl_helpers, [0]):
        nval += n
        ctx.absorb(viols)
    ctx.assumptions += [
        "UCLCHEM's CO photodissociation helpers (dust scattering, tau(lambda)/tau(V), lambda-bar) are compared with a second transcription of photoreac.f90 on a grid bracketing every branch point; the Savage & Mathis table values themselves are copied, only the control flow around them is independent",
        "the tabulated shielding functions themselves are judged by an interpolation invariant only: at every node of the generated table (positive neighbourhood) the compiled helper returns the table value, and at the log-midpoint of every axis-parallel edge between two judged nodes of the H2 (L96), CO (V09) and N2 (L13) tables whose values differ it returns a value strictly between the two (true of any interpolation that is monotone within a cell; catches swapped or missing weights and wrong neighbour indices); other values between nodes and beyond the table are not judged",
        "reference laws: KIDA formulae 1-5 (Wakelam+2012), UMIST RATE12 (McElroy+2013), Walsh+2015 (Leeds), UCLCHEM v1.3, transcribed in mc/ref/ratelaws.py; zism = 1.3e-17",
        "shielding/scattering helper values entering a law are taken from the compiled helpers themselves, called with the column densities the source database prescribes (N(H2) = 0.5*1.59e21*Av, N(CO) = N(N2) = 1e-5 N(H2)); for Leeds the three tables are selected, so a wrong column in the emitted rate changes the value",
        "comparison: relative 1e-12 or identical inf/nan class; window guards are C06's subject (all windows here are 1..99999 K)",
        "Leeds fixed-width fields cannot carry every alphabet value; those (format,value) pairs are skipped and counted",
    ]
    A = A_QUICK if ctx.tier == "quick" else A_THOROUGH
    return {
        "evaluations": nval,
        "distinct_nontrivial": total,
        "rule": f"every (format, type/formula/code) of the gas-phase tables reached through its own line format (own encoder -> naunet parser) and the API x (alpha,beta,gamma) in A^3; each reaction is evaluated by g++-compiled EvalRates on a {len(GRID)}-point physical grid (3 K to 5e4 K); distinct = distinct (format,type,a,b,c)",
        "samples": [{"format": t[0], "code": t[1], "law": t[2]} for t in TYPES[:6]],
        "alphabet": A,
        "types": len(TYPES),
        "reactions": total,
        "grid_points": len(GRID),
        "packs_compiled": len(ps),
        "not_representable_in_format": skipped,
        "shielding_table_nodes_judged": nodes,
        "exhaustive": True,
    }


def replay(ctx, case):
    if "ucl_helpers" in case:
        ctx.absorb(ucl_helpers(0)[1])
        return
    if "shielding_nodes" in case:
        ctx.absorb(shielding_nodes(case["shielding_nodes"])[2])
        return
    if "type" not in case:
        ctx.absorb(refusals())
        return
    t = tuple(case["type"])
    n, viols, sk, nv = run_pack((t[0], [(t, case["a"], case["b"], case["c"])]))
    ctx.absorb(viols)
