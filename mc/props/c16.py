"""C16 - renormalisation restores the reference elemental abundances.
The emitted InitRenorm / RenormAbundance / GetElementAbund text is read by E4 into exact
polynomials; the linear system is solved exactly over the rationals."""
from __future__ import annotations

import itertools
import re
from fractions import Fraction

from ..core.runner import HarnessError
from ..ctext import poly as P
from ..ctext.cexpr import CSyntaxError, parse_expr
from ..ctext.stmts import Macros, classify, find_function_body, preprocess, read_macros, split_statements
from .c04 import read_element_abund

LEVEL = "exploration"

# composition by construction
COMP = {
    "H": {"H": 1}, "H+": {"H": 1}, "H2": {"H": 2}, "e-": {}, "E": {}, "D": {"D": 1}, "HD": {"H": 1, "D": 1}, "C": {"C": 1}, "O": {"O": 1},
    "CO": {"C": 1, "O": 1}, "#CO": {"C": 1, "O": 1}, "H2O": {"H": 2, "O": 1}, "GRAIN0": {"GRAIN": 1}, "GRAIN0-": {"GRAIN": 1},
}
POOL = [s for s in COMP if s != "H"]
# one network with many elements (two-digit element indices) and molecules coupling elements of high index
BIG_ATOMS = ["He", "C", "N", "O", "F", "Na", "Mg", "Si", "P", "S", "Cl", "Fe"]
BIG_MOLS = {"HCl": {"H": 1, "Cl": 1}, "CP": {"C": 1, "P": 1}, "SiS": {"Si": 1, "S": 1}, "NaCl": {"Na": 1, "Cl": 1}, "FeO": {"Fe": 1, "O": 1}, "ClO": {"Cl": 1, "O": 1}, "CF+": {"C": 1, "F": 1}, "MgO": {"Mg": 1, "O": 1}, "PN": {"P": 1, "N": 1}, "HF": {"H": 1, "F": 1},
            # pairs whose element indices read the same when written next to each other ((1,10) / (11,0), (1,11) / (11,1), ...)
            "CS": {"C": 1, "S": 1}, "ClP": {"Cl": 1, "P": 1}, "ClS": {"Cl": 1, "S": 1}, "ClSi": {"Cl": 1, "Si": 1}, "FS": {"F": 1, "S": 1}}
BIGSET = ["H"] + BIG_ATOMS + list(BIG_MOLS)
ALIASES = {"H": "HI", "H+": "HII", "H2": "H2I", "e-": "eM", "E": "EM", "D": "DI", "HD": "HDI", "C": "CI", "O": "OI", "CO": "COI", "#CO": "GCOI", "H2O": "H2OI", "GRAIN0": "GRAIN0I", "GRAIN0-": "GRAIN0M"}
PRIMES = [Fraction(1), Fraction(2), Fraction(3), Fraction(5, 7), Fraction(11, 13)]
ABVALS = [Fraction(1), Fraction(2), Fraction(3), Fraction(1, 10**10), Fraction(7, 2)]


for _a in BIG_ATOMS:
    COMP[_a] = {_a: 1}
    ALIASES[_a] = _a + "I"
for _m, _c in BIG_MOLS.items():
    COMP[_m] = dict(_c)
    ALIASES[_m] = _m.rstrip("+") + ("II" if _m.endswith("+") else "I")


def species_sets(tier):
    yield list(BIGSET)
    yield ["@linked"] + list(BIGSET)
    kmax = 3 if tier == "quick" else 4
    for k in range(1, kmax + 1):
        for c in itertools.combinations(POOL, k):
            if "E" in c and "e-" in c:
                continue  # one species
            yield ["H"] + list(c)
            if k >= 2:
                yield ["@linked", "H"] + list(c)


def read_renorm(files, backend, macros):
    md = macros.as_dict()
    txt = preprocess(files["src/naunet_renorm.cpp"], macros, Macros())
    matrix, factors = {}, {}
    body = find_function_body(txt, r"\bint\s+InitRenorm\s*\(")
    for node in split_statements(body):
        if node[0] != "stmt":
            raise HarnessError("InitRenorm: block")
        k = classify(node[1])
        if k[0] in ("decl", "return"):
            continue
        if k[0] == "assign":
            m = re.match(r"^(?:IJth\s*\(\s*A\s*,|A\s*\()\s*(\w+)\s*,\s*(\w+)\s*\)$", k[1])
            if not m:
                raise HarnessError(f"InitRenorm: target {k[1]!r}")
            i, j = macros.value(m.group(1)), macros.value(m.group(2))
            try:
                matrix[(i, j)] = P.to_poly(parse_expr(k[2]), md)
            except CSyntaxError as e:
                return None, None, ("matrix", node[1], str(e))
            except ZeroDivisionError as e:
                return None, None, ("matrix-div0", node[1], str(e))
            continue
        raise HarnessError(f"InitRenorm: {node[1]!r}")
    body = find_function_body(txt, r"\bint\s+RenormAbundance\s*\(")
    for node in split_statements(body):
        if node[0] != "stmt":
            raise HarnessError("RenormAbundance: block")
        k = classify(node[1])
        if k[0] in ("decl", "return"):
            continue
        if k[0] == "assign":
            m = re.match(r"^ab\s*\[\s*(\w+)\s*\]$", k[1])
            if not m:
                raise HarnessError(f"RenormAbundance: target {k[1]!r}")
            s = macros.value(m.group(1))
            try:
                # statements are kept in order: a slot assigned twice is rescaled twice, a slot never assigned keeps its value
                factors.setdefault("@order", []).append((s, P.to_poly(parse_expr(k[2]), md)))
            except CSyntaxError as e:
                return None, None, ("factor", node[1], str(e))
            except ZeroDivisionError as e:
                return None, None, ("factor-div0", node[1], str(e))
            continue
        raise HarnessError(f"RenormAbundance: {node[1]!r}")
    return matrix, factors, None


def solve(M, b):
    n = len(b)
    A = [[Fraction(M[i][j]) for j in range(n)] + [Fraction(b[i])] for i in range(n)]
    for c in range(n):
        piv = next((r for r in range(c, n) if A[r][c] != 0), None)
        if piv is None:
            return None
        A[c], A[piv] = A[piv], A[c]
        pv = A[c][c]
        A[c] = [x / pv for x in A[c]]
        for r in range(n):
            if r != c and A[r][c] != 0:
                f = A[r][c]
                A[r] = [x - f * y for x, y in zip(A[r], A[c])]
    return [A[i][n] for i in range(n)]


def apply_factors(factors, ab, r):
    """RenormAbundance as a sequence of assignments ab[s] = <expr over ab[], rptr[]> in text order"""
    new = dict(ab)
    for sl, poly in factors.get("@order", []):
        new[sl] = P.evaluate(poly, lambda sym: new[int(sym[3:])] if sym.startswith("ab:") else r[int(sym[5:])])
    return new


def build_net(species):
    """-> (network, species names, linked).  '@linked' variant: same species, but all except the last-sorted one are
    linked by one reaction: Network.species orders by connection count first, so the slot order changes (in
    particular the electron is no longer the last slot)"""
    from ..harness.render import quiet
    from naunet.network import Network

    linked = bool(species) and species[0] == "@linked"
    if linked:
        species = list(species[1:])
    with quiet():
        net = Network(required_species=list(species))
        if linked:
            from naunet.reactions.reaction import Reaction
            from naunet.reactiontype import ReactionType

            order = [x.name for x in net.species]
            body = order[:-1]
            net.add_reaction(Reaction(body[:1], body[1:] or body[:1], -1.0, -1.0, 1.0, 0.0, 0.0, ReactionType.GAS_TWOBODY))
            if [x.name for x in net.species][0] != order[-1] and len(order) > 2:
                raise HarnessError(f"linked variant did not move {order[-1]} to the front: {[x.name for x in net.species]}")
    return net, list(species), linked


def run_set(species):
    from ..harness.render import render, reset_globals, quiet
    from ..harness.cxx import confirm_not_c

    reset_globals()
    from naunet.network import Network

    net, species, linked = build_net(species)
    case = {"species": (["@linked"] if linked else []) + list(species)}
    label = "+".join(species) + (" (linked)" if linked else "")
    viols = []
    nchk = 0
    for backend in ("dense", "rosenbrock4"):
        try:
            files = render(net, backend, ["include/naunet_macros.h.j2", "src/naunet_renorm.cpp.j2", "src/naunet_physics.cpp.j2"])
        except Exception as e:
            viols.append((f"C16:render-error:{type(e).__name__}", f"{label}: {e!r}", case))
            continue
        macros = read_macros(files["include/naunet_macros.h"])
        feat = []
        if any(s.startswith("GRAIN") for s in species):
            feat.append("grain-species")
        elems_present = {e for s in species for e in COMP[s] if len(COMP[s]) == 1 and sum(COMP[s].values()) == 1 and not s.endswith(("+", "-")) and not s.startswith("#")}
        if any(any(e not in elems_present for e in COMP[s]) for s in species if not s.startswith("GRAIN")):
            feat.append("species-with-untracked-element")
        ftag = "+".join(feat) or "plain"
        matrix, factors, err = read_renorm(files, backend, macros)
        if err:
            kind, stmt, why = err
            if kind.endswith("div0"):
                viols.append((f"C16:division-by-literal-zero:{ftag}", f"{label} [{backend}]: {stmt[:160]}", case))
            else:
                diag = confirm_not_c(stmt)
                viols.append((f"C16:not-c:{ftag}", f"{label} [{backend}]: emitted statement is not C (g++: {diag}): {stmt[:160]}", case))
            continue
        ea = read_element_abund(files, macros)
        if ea is None:
            raise HarnessError("no GetElementAbund")
        neq_, nel_ = macros.value("NEQUATIONS"), macros.value("NELEMENTS")
        oob = [f"A({i},{j})" for (i, j) in matrix if not (0 <= i < nel_ and 0 <= j < nel_)]
        for sl, poly in factors.get("@order", []):
            if not 0 <= sl < neq_:
                oob.append(f"ab[{sl}]")
            for mono in poly:
                for sym, _e in mono:
                    if sym.startswith("ab:") and not 0 <= int(sym[3:]) < neq_:
                        oob.append(f"ab[{sym[3:]}]")
                    if sym.startswith("rptr:") and not 0 <= int(sym[5:]) < nel_:
                        oob.append(f"rptr[{sym[5:]}]")
        for (i, j), poly in matrix.items():
            for mono in poly:
                for sym, _e in mono:
                    if sym.startswith("ab:") and not 0 <= int(sym[3:]) < neq_:
                        oob.append(f"ab[{sym[3:]}]")
        if oob:
            viols.append((f"C16:subscript-out-of-range:{ftag}", f"{label} [{backend}]: renormalisation code addresses {sorted(set(oob))[:6]} with NEQUATIONS={neq_}, NELEMENTS={nel_}", case))
            continue
        assigned = [sl for sl, _ in factors.get("@order", [])]
        if sorted(assigned) != sorted(set(assigned)):
            viols.append((f"C16:slot-rescaled-twice:{ftag}", f"{label} [{backend}]: RenormAbundance assigns slots {sorted(x for x in set(assigned) if assigned.count(x) > 1)} more than once", case))
            continue
        slots = {}
        for s in species:
            mac = "IDX_" + ALIASES[s]
            if mac not in macros.text:
                raise HarnessError(f"{label}: macro {mac} missing")
            slots[s] = macros.value(mac)
        nelem = macros.value("NELEMENTS")
        elem_slots = {n[9:]: macros.value(n) for n in macros.text if n.startswith("IDX_ELEM_")}
        if "H" not in elem_slots:
            raise HarnessError("H element missing")
        for vi in range(3 if len(species) > 3 else 5):
            ab = {slots[s]: ABVALS[(i + vi) % len(ABVALS)] * (vi + 1) for i, s in enumerate(species)}

            def val(sym, extra=None):
                if sym.startswith("ab:") or sym.startswith("y:"):
                    return ab[int(sym.split(":")[1])]
                if extra and sym in extra:
                    return extra[sym]
                raise HarnessError(f"unexpected symbol {sym}")

            totals = {e: P.evaluate(ea[sl], val) for e, sl in elem_slots.items()}
            hn = totals["H"]
            for mode in ("matching", "scaled"):
                ref = {}
                for k, (e, sl) in enumerate(sorted(elem_slots.items())):
                    ref[sl] = totals[e] / hn * (PRIMES[k % len(PRIMES)] if (mode == "scaled" and e != "H") else 1)
                try:
                    M = [[P.evaluate(matrix.get((i, j), {}), lambda s: val(s, {"Hnuclei": hn})) for j in range(nelem)] for i in range(nelem)]
                except ZeroDivisionError:
                    viols.append((f"C16:division-by-zero:{ftag}", f"{label} [{backend}]: matrix entry divides by zero for ab={ {k: str(v) for k, v in ab.items()} }", case))
                    break
                r = solve(M, [ref[i] for i in range(nelem)])
                nchk += 1
                if r is None:
                    viols.append((f"C16:singular:{ftag}", f"{label} [{backend}]: coupling matrix singular for positive abundances", case))
                    break
                new = dict(ab)
                try:
                    for sl, poly in factors.get("@order", []):
                        new[sl] = P.evaluate(poly, lambda sym: new[int(sym[3:])] if sym.startswith("ab:") else r[int(sym[5:])] if sym.startswith("rptr:") else val(sym))
                except ZeroDivisionError:
                    viols.append((f"C16:division-by-zero:{ftag}", f"{label} [{backend}]: renormalisation factor divides by zero", case))
                    break
                # note: the emitted statement is ab = ab * (factor) and the factor polynomial read above already contains ab
                tot2 = {e: P.evaluate(ea[sl], lambda sym: new[int(sym.split(":")[1])]) for e, sl in elem_slots.items()}
                if tot2["H"] == 0:
                    viols.append((f"C16:zero-hydrogen:{ftag}", f"{label} [{backend}]: hydrogen nuclei vanish after renormalisation", case))
                    break
                bad = [e for e, sl in elem_slots.items() if tot2[e] / tot2["H"] != ref[sl]]
                if bad:
                    viols.append((f"C16:ratio:{mode}:{ftag}", f"{label} [{backend}] {mode}: elements {bad}: ratios after renormalisation { {e: str(tot2[e]/tot2['H']) for e in bad} } reference { {e: str(ref[elem_slots[e]]) for e in bad} }", case))
                    break
                el = "e-" if "e-" in slots else "E" if "E" in slots else None
                if el and new[slots[el]] != ab[slots[el]]:
                    viols.append((f"C16:electron-changed:{ftag}", f"{label} [{backend}]: electron abundance changed from {ab[slots[el]]} to {new[slots[el]]}", case))
                    break
                if mode == "matching" and any(new[sl] != ab[sl] for sl in ab):
                    viols.append((f"C16:not-identity:{ftag}", f"{label} [{backend}]: ratios already match but abundances change", case))
                    break
    return 1, nchk, viols


def conformance(arg):
    """the real compiled Naunet::SetReferenceAbund + Renorm (rendered naunet.cpp linked against the shim's
    dense LU / uBLAS LU) must land on the exact rational solution"""
    species, backend = arg
    import shutil
    import struct
    import subprocess
    import tempfile
    from pathlib import Path

    from ..core.runner import VERIF
    from ..harness.cxx import GXX, SHIM, run as runcmd
    from ..harness.render import render, reset_globals, quiet, scratch

    reset_globals()
    from naunet.network import Network

    net, species, linked = build_net(species)
    case = {"species": (["@linked"] if linked else []) + list(species), "backend": backend, "conformance": True}
    with quiet():
        files = render(net, backend, None)
    macros = read_macros(files["include/naunet_macros.h"])
    matrix, factors, err = read_renorm(files, backend, macros)
    if err:
        return 0, []
    ea = read_element_abund(files, macros)
    slots = {s: macros.value("IDX_" + ALIASES[s]) for s in species}
    elem_slots = {n[9:]: macros.value(n) for n in macros.text if n.startswith("IDX_ELEM_")}
    nelem, neq = macros.value("NELEMENTS"), macros.value("NEQUATIONS")
    ab = {slots[s]: ABVALS[i % len(ABVALS)] * (i + 1) for i, s in enumerate(species)}
    totals = {e: P.evaluate(ea[sl], lambda sym: ab[int(sym.split(":")[1])]) for e, sl in elem_slots.items()}
    hn = totals["H"]
    ref = {sl: totals[e] / hn * (PRIMES[k % len(PRIMES)] if e != "H" else 1) for k, (e, sl) in enumerate(sorted(elem_slots.items()))}
    M = [[P.evaluate(matrix.get((i, j), {}), lambda s_: ab[int(s_[3:])] if s_.startswith("ab:") else hn) for j in range(nelem)] for i in range(nelem)]
    r = solve(M, [ref[i] for i in range(nelem)])
    if r is None:
        return 0, []
    try:
        exp = {sl: float(v) for sl, v in apply_factors(factors, ab, r).items()}
    except (ZeroDivisionError, KeyError, IndexError):
        return 0, []  # judged by the exact sub-check
    d = Path(tempfile.mkdtemp(dir=scratch()))
    try:
        for rel, text in files.items():
            p_ = d / rel
            p_.parent.mkdir(parents=True, exist_ok=True)
            p_.write_text(text)
        refarr = ", ".join(repr(float(ref[i])) for i in range(nelem))
        # second reference: another species vector (absolute densities); its element ratios define ref2
        absp = {slots[s_]: ABVALS[(i + 2) % len(ABVALS)] * (i + 2) * 1000 for i, s_ in enumerate(species)}
        refsparr = ", ".join(repr(float(absp.get(i, 0))) for i in range(neq))
        tot2 = {e: P.evaluate(ea[sl], lambda sym: absp[int(sym.split(":")[1])]) for e, sl in elem_slots.items()}
        ref2 = {sl: tot2[e] / tot2["H"] for e, sl in elem_slots.items()}
        r2 = solve(M, [ref2[i] for i in range(nelem)])
        exp2 = {}
        if r2 is not None:
            exp2 = {sl: float(v) for sl, v in apply_factors(factors, ab, r2).items()}
        abarr = ", ".join(repr(float(ab.get(i, 0))) for i in range(neq))
        (d / "driver.cpp").write_text(f"""
#include <stdio.h>
#include "naunet.h"
char *verif_log_buf = NULL; size_t verif_log_len = 0;
int main() {{
    Naunet n; n.Init();
    double ref[NELEMENTS] = {{ {refarr} }};
    double ab[NEQUATIONS] = {{ {abarr} }};
    /* opt 0: element abundances that are NOT pre-normalised to hydrogen (scaled by 3.7) */
    for (int i = 0; i < NELEMENTS; i++) ref[i] *= 3.7;
    n.SetReferenceAbund(ref);   /* one argument: the documented default is opt 0 (element abundances) */
    int rc = n.Renorm(ab);
    FILE *o = fopen("out.bin", "wb"); fwrite(ab, sizeof(double), NEQUATIONS, o);
    /* the same object renormalises a second state against the same stored reference (no SetReferenceAbund in between) */
    double ab3[NEQUATIONS] = {{ {abarr} }};
    /* ... also after the solver settings were changed in between (Reset is what drivers call per grid patch): the
       stored reference is not a solver setting */
    if (n.Reset(1, 1e-18, 1e-4, 300) != NAUNET_SUCCESS) return 8;
    rc |= n.Renorm(ab3);
    fwrite(ab3, sizeof(double), NEQUATIONS, o);
    /* opt 1: the reference is given as a species abundance vector (absolute densities) */
    double ab2[NEQUATIONS] = {{ {abarr} }};
    double refsp[NEQUATIONS] = {{ {refsparr} }};
    n.SetReferenceAbund(refsp, 1);
    rc |= n.Renorm(ab2);
    fwrite(ab2, sizeof(double), NEQUATIONS, o);
    /* the python entry point: what PyWrapRenorm hands back is the renormalised state (reference as set last) */
    std::vector<ssize_t> shape(1, (ssize_t)NEQUATIONS);
    double ab4[NEQUATIONS] = {{ {abarr} }};
    pybind11::array_t<double> in(shape, ab4);
    /* ... after the reference went through the python entry point as well: first another reference (opt 0), then the
       species vector with opt 1 handed to PyWrapSetReferenceAbund */
    n.SetReferenceAbund(ref, 0);
    pybind11::array_t<double> refin(shape, refsp);
    n.PyWrapSetReferenceAbund(refin, 1);
    pybind11::array_t<double> out = n.PyWrapRenorm(in);
    pybind11::buffer_info bi = out.request();
    if (bi.size != NEQUATIONS) return 9;
    fwrite(bi.ptr, sizeof(double), NEQUATIONS, o); fclose(o);
    n.Finalize();
    return rc;
}}
""")
        srcs = sorted(str(x.relative_to(d)) for x in (d / "src").glob("*.cpp"))
        extra = [str(VERIF / "cxx" / "stub_cvode.cpp")] if backend != "rosenbrock4" else []
        # built as the python module is built (-DPYMODULE): the class then also carries the PyWrap* entry points
        cmd = [GXX, "-std=c++17", "-w", "-O0", "-DPYMODULE", "-DPYMODNAME=pymod", "-include", str(VERIF / "cxx" / "verif_io.h"), "-I", str(SHIM), "-I", "include", *srcs, *extra, "driver.cpp", "-o", "drv", "-lm"]
        rc, so, se = runcmd(cmd, cwd=str(d), timeout=600)
        if rc != 0:
            first = next((ln for ln in se.splitlines() if "error" in ln), se[:200])
            return 1, [(f"C16:conformance-compile:{backend}", f"{'+'.join(species)} [{backend}]: {first[:300]}", case)]
        pr = subprocess.run(["./drv"], cwd=str(d), capture_output=True, timeout=120)
        if pr.returncode != 0:
            return 1, [(f"C16:renorm-returns-failure:{backend}", f"{'+'.join(species)} [{backend}]: Renorm returned {pr.returncode}", case)]
        both = struct.unpack(f"<{4*neq}d", (d / "out.bin").read_bytes())
        got, got3, got2, got4 = both[:neq], both[neq : 2 * neq], both[2 * neq : 3 * neq], both[3 * neq :]
        for sl, e in exp.items():
            if not (abs(got3[sl] - e) <= 1e-9 * max(abs(e), 1e-300)):  # written so that NaN fails
                return 1, [(f"C16:compiled-renorm-differs:{backend}:second-call", f"{'+'.join(species)} [{backend}]: a second Renorm on the same object (same reference, same input state, Reset(...) with other tolerances in between) gives ab[{sl}] = {got3[sl]!r}, the first call and the exact solution give {e!r}", case)]
        for sl, e in exp.items():
            if not (abs(got[sl] - e) <= 1e-9 * max(abs(e), 1e-300)):  # written so that NaN fails
                return 1, [(f"C16:compiled-renorm-differs:{backend}:opt0", f"{'+'.join(species)} [{backend}]: SetReferenceAbund(ref, 0) with un-normalised element abundances, then Renorm: ab[{sl}] = {got[sl]!r}, exact solution for ref/ref_H {e!r}", case)]
        for sl, e in exp2.items():
            if not (abs(got2[sl] - e) <= 1e-9 * max(abs(e), 1e-300)):  # written so that NaN fails
                return 1, [(f"C16:compiled-renorm-differs:{backend}:opt1", f"{'+'.join(species)} [{backend}]: SetReferenceAbund(species vector, 1), then Renorm: ab[{sl}] = {got2[sl]!r}, exact solution {e!r}", case)]
        for sl, e in exp2.items():
            if not (abs(got4[sl] - e) <= 1e-9 * max(abs(e), 1e-300)):
                return 1, [(f"C16:compiled-renorm-differs:{backend}:python-entry", f"{'+'.join(species)} [{backend}]: PyWrapSetReferenceAbund(species vector, 1) then PyWrapRenorm: the returned array has ab[{sl}] = {got4[sl]!r} (input {float(ab.get(sl, 0))!r}); SetReferenceAbund(same vector, 1) + Renorm on the same state give {e!r}", case)]
        return 2, []
    finally:
        shutil.rmtree(d, ignore_errors=True)


def run(ctx):
    sets = list(species_sets(ctx.tier))
    n = nchk = 0
    for k, c, viols in ctx.pmap(run_set, sets, chunksize=4):
        n += k
        nchk += c
        ctx.absorb(viols)
    clean = [sp for sp in sets if sp[0] != "@linked" and not any(x.startswith("GRAIN") for x in sp) and all(any(len(COMP[a]) == 1 and a in COMP and list(COMP[a]) == [e] and not a.endswith(("+", "-")) and not a.startswith("#") and sum(COMP[a].values()) == 1 for a in sp) for x in sp for e in COMP[x])]
    step = 12 if ctx.tier == "quick" else 3
    always = [["H", "O"], ["H", "C", "O", "CO"], ["H", "D", "HD", "O"], ["H", "H2", "e-", "O"]]  # H first / middle / with electrons
    chosen = [sp for sp in always if sp in clean] + [sp for i, sp in enumerate(clean) if i % step == ctx.seed % step and sp not in always]
    chosen += [["@linked"] + sp for sp in chosen if len(sp) >= 3][:: 2 if ctx.tier == "quick" else 1]
    conf = [(sp, b) for sp in chosen for b in ("dense", "rosenbrock4")]
    nconf = 0
    for k, viols in ctx.pmap(conformance, conf):
        nconf += k
        ctx.absorb(viols)
    ctx.assumptions += [
        "every set contains atomic H (Renorm only exists #ifdef IDX_ELEM_H); networks are built from required_species (renormalisation does not depend on reactions); each set of >= 3 species is also built with one reaction linking all but the last-sorted species, which changes the slot order (electron first instead of last)",
        "InitRenorm matrix entries, RenormAbundance factors and GetElementAbund sums are read from the rendered text as exact polynomials and evaluated over the rationals; the linear system is solved exactly (what SUNLinSolSolve / lu_substitute compute up to rounding)",
        "reference ratios: (a) the current ratios (identity expected), (b) every non-H element scaled by a distinct rational",
    ]
    return {
        "evaluations": nchk,
        "distinct_nontrivial": len(sets),
        "rule": "all species sets {H} + 1..4 (quick 1..3) of {H+, H2, e-, E, D, HD, C, O, CO, #CO, H2O, GRAIN0, GRAIN0-} x 3-5 positive abundance vectors x {matching, scaled} reference ratios x {cvode, odeint} text",
        "samples": sets[:: max(1, len(sets) // 6)][:6],
        "species_sets": len(sets),
        "compiled_renorm_conformance_runs": nconf,
        "exhaustive": True,
    }


def replay(ctx, case):
    if case.get("conformance"):
        k, v = conformance((case["species"], case["backend"]))
        ctx.absorb(v)
        return
    n, c, v = run_set(case["species"])
    ctx.absorb(v)
