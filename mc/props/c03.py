"""C03 - sparse (CSR), dense and Odeint Jacobian layouts agree, are well-formed, in bounds."""
from __future__ import annotations

from ..core.runner import HarnessError
from ..ctext.odetext import NotC, read_ode
from . import odecommon as oc
from .c02 import modifier_cases, modifier_new_entry_cases, modifier_thermal_cases

LEVEL = "exploration"


def cases(tier):
    yield from oc.enum_examples(tier)  # slowest first
    yield from oc.enum_special(tier)
    yield from oc.enum_S1(tier)
    yield from oc.enum_S2(tier)
    yield from oc.enum_S3(tier)
    yield from oc.enum_S4(tier)
    yield from modifier_thermal_cases("quick")
    yield from modifier_new_entry_cases(tier)
    if tier != "quick":
        yield from modifier_cases("quick")


def run_case(desc):
    from ..harness.render import render, reset_globals

    reset_globals()
    viols = []
    label = oc.case_label(desc)
    try:
        net = oc.build_network(desc)
    except Exception as e:
        return 0, [(f"C03:build-error:{type(e).__name__}", f"network construction raised {e!r}", label)], (0, 0)
    ots = {}
    for b in oc.ALL_BACKENDS:
        try:
            files = render(net, b, "ode", jac_pattern=True)
            ot = read_ode(files, b)
        except NotC as e:
            viols.append((f"C03:not-c:{b}", f"emitted statement is not C: {e.stmt[:160]} ({e.why})", label))
            continue
        except HarnessError:
            raise
        except Exception as e:
            viols.append((f"C03:render-error:{b}:{type(e).__name__}", f"render raised {e!r}", label))
            continue
        ots[b] = ot
        if "jac_pattern.dat" not in files:
            viols.append((f"C03:pattern-missing:{b}", "jac_pattern requested but no file written", label))
        for sig, what in oc.check_c03_single(desc, ot, b, files):
            viols.append((sig, what, dict(label, backend=b)))
    if len(ots) > 1:
        for sig, what in oc.check_c03_cross(ots):
            viols.append((sig, what, label))
    nsub = sum(len(o.subscripts) for o in ots.values())
    nnz = ots["dense"].nnz_macro if "dense" in ots else 0
    return len(oc.ALL_BACKENDS), viols, (nsub, nnz)


def conformance_case(arg):
    """Compile Fex/Jac/EvalRates of one network for dense, sparse and rosenbrock4 with ASan/UBSan and
    exactly-sized heap buffers, run them on two abundance vectors, and compare every value with
    E4's evaluation of the same text (binds the reader to the real compiler)."""
    desc, seed, cuda = arg
    import random

    from ..ctext import poly as P
    from ..harness import oderun as OR
    from ..harness.render import render, reset_globals, quiet

    reset_globals()
    label = oc.case_label(desc)
    viols = []
    nvals = 0
    rng = random.Random(seed * 7919 + hash(repr(sorted(label.items()))) % 100003)
    try:
        with quiet():
            net = oc.build_network(desc)
    except Exception:
        return 0, []
    if cuda:
        viols += cuda_vs_dense(net, label, rng)
    for backend in ("dense", "sparse", "rosenbrock4"):
        try:
            files = render(net, backend, OR.TEMPLATES_ODEINT if backend == "rosenbrock4" else OR.TEMPLATES_CVODE)
            ot = read_ode(files, backend)
        except Exception as e:
            continue  # judged by the text checks above
        neq = ot.neq
        yvals = [[rng.uniform(0.5, 2.0) for _ in range(neq)] for _ in range(2)]
        params = {"nH": 1e4, "Tgas": 50.0, "zeta": 1.3e-17, "Av": 1.0, "omega": 0.5, "mu": 1.3, "gamma": 1.6}
        res = OR.build_and_run(files, backend, yvals, params)
        if "error" in res:
            if res["error"] == "runtime":
                viols.append((f"C03:sanitizer:{backend}", f"{backend}: compiled Fex/Jac trips the sanitizer: {res['detail']}", dict(label, backend=backend)))
            else:
                viols.append((f"C03:conformance-compile:{backend}", f"{backend}: {res['detail'][:300]}", dict(label, backend=backend)))
            continue
        for yv, r in zip(yvals, res["runs"]):
            def val(sym):
                if sym.startswith("y:"):
                    return yv[int(sym[2:])]
                if sym.startswith("k:"):
                    return r["k"][int(sym[2:])]
                raise KeyError(sym)

            thermal = any(s.startswith(("kc:", "kh:")) or s in ("gamma", "kerg", "npar") for p in ot.ydot.values() for s in P.symbols(p))
            if thermal:
                continue  # kc/npar are not observable through this driver; the thermal row is judged on text
            for sl, p in ot.ydot.items():
                exp = float(sum(float(c) * _prod(m, val) for m, c in p.items()))
                got = r["ydot"][sl]
                nvals += 1
                if not (abs(got - exp) <= 1e-9 * max(1.0, abs(exp))):
                    raise HarnessError(f"E4 disagrees with the compiled Fex on {label} [{backend}] slot {sl}: {got} vs {exp}")
            for (rr, cc), p in ot.jac.items():
                if rr == "?":
                    continue
                exp = float(sum(float(c) * _prod(m, val) for m, c in p.items()))
                got = r["jac"].get((rr, cc), 0.0)
                nvals += 1
                if not (abs(got - exp) <= 1e-9 * max(1.0, abs(exp))):
                    raise HarnessError(f"E4 disagrees with the compiled Jac on {label} [{backend}] entry {(rr, cc)}: {got} vs {exp}")
            if r["csr"] is not None:
                rp, cv, dv = r["csr"]
                if rp != ot.rowptrs or cv != ot.colvals:
                    # the reader sees the assignments of the text; the executed code also shows what the text never
                    # assigns (uninitialised pointers / indices).  A layout the text leaves incomplete is the generated
                    # code's problem, not the reader's
                    nnz_ = len(cv)
                    if len(ot.rowptrs) != neq + 1 or len(ot.colvals) != nnz_ or (ot.rowptrs and ot.rowptrs[-1] != nnz_):
                        viols.append((f"C03:csr-incomplete:{backend}", f"{backend}: the emitted Jac assigns {len(ot.rowptrs)} row pointers and {len(ot.colvals)} column indices for NEQUATIONS = {neq}, NNZ = {nnz_}; the executed code leaves the rest uninitialised", dict(label, backend=backend)))
                        break
                    raise HarnessError(f"E4 CSR layout disagrees with the compiled Jac on {label}")
    return nvals, viols


def backends_vs_dense(net, label):
    """every back-end compiled (sparse, Odeint, the CUDA sources on the host) and executed on the same three states;
    the first and third state leave mu and gamma at their generated defaults (-1: "compute them from the
    abundances"), so the code that fills them in is part of what must agree.  Compared per system with dense."""
    from ..harness import oderun as OR
    from ..harness.render import render
    from ..ctext.stmts import read_macros

    try:
        fd = render(net, "dense", OR.TEMPLATES_CVODE)
        mac = read_macros(fd["include/naunet_macros.h"])
        neq = mac.value("NEQUATIONS")
    except Exception:
        return 0, []
    # a batch of more systems than there are species (where that stays small): host code that sizes the batch from
    # the vector length must divide by the number of equations, and only such a batch tells the two apart
    nsp = mac.value("NSPECIES")
    ng = nsp + 1 if 3 <= nsp <= 7 else 3
    yvals = [[0.5 + ((7 * i + 3 * g) % 11) / 8.0 for i in range(neq)] for g in range(ng)]
    if "IDX_TGAS" in mac.text:
        for g, yv in enumerate(yvals):
            yv[mac.value("IDX_TGAS")] = (8.0e3, 2.5e4, 1.2e4)[g % 3]
    base = {"nH": 1e4, "Tgas": 50.0, "zeta": 1.3e-17, "Av": 1.0, "omega": 0.5}
    # mu and gamma are independent: both left at their defaults, both given, and one of each
    p3 = [dict(base, Tgas=50.0, nH=1e4, zeta=1.3e-17, mu=-1.0, gamma=-1.0), dict(base, Tgas=220.0, nH=3e5, zeta=5e-16, mu=1.3, gamma=1.6), dict(base, Tgas=15.0, nH=2e3, zeta=2e-18, mu=1.3, gamma=-1.0)]
    plist = [p3[g % 3] for g in range(ng)]
    if ng > 3:
        plist[3] = dict(base, Tgas=50.0, nH=1e4, zeta=1.3e-17, mu=-1.0, gamma=1.6)
    rd = OR.build_and_run(fd, "dense", yvals, plist)
    if "error" in rd:
        return 0, []
    out = []
    n = 0
    for b in ("sparse", "rosenbrock4", "cusparse"):
        try:
            fb = render(net, b, None if b == "cusparse" else OR.TEMPLATES_ODEINT if b == "rosenbrock4" else OR.TEMPLATES_CVODE)
        except Exception:
            continue
        rb = OR.build_and_run(fb, b, yvals, plist)
        case = dict(label, backend=b, executed=True)
        if "error" in rb:
            kind = "sanitizer-or-abort" if rb["error"] == "runtime" else "compile"
            out.append((f"C03:executed:{b}:{kind}", f"{b} sources compiled and executed: {rb['detail'][:300]}", case))
            continue
        n += 1
        bad = None
        for g, (a, c) in enumerate(zip(rd["runs"], rb["runs"])):
            for i, (x, y) in enumerate(zip(a["ydot"], c["ydot"])):
                if not _close(x, y):
                    bad = ("ydot", f"system {g}{' (mu and/or gamma left at their defaults)' if g % 3 != 1 else ''}: {b} gives ydot[{i}] = {y!r}, dense gives {x!r} for the same state")
                    break
            if bad:
                break
            for (r, cc), x in a["jac"].items():
                y = c["jac"].get((r, cc), 0.0)
                if not _close(x, y):
                    bad = ("jac", f"system {g}{' (mu and/or gamma left at their defaults)' if g % 3 != 1 else ''}: {b} gives J[{r}][{cc}] = {y!r}, dense gives {x!r} for the same state")
                    break
            if bad:
                break
        if bad:
            out.append((f"C03:{b}-vs-dense:{bad[0]}", bad[1], case))
    return n, out


def cuda_vs_dense(net, label, rng):
    """The cuSPARSE sources executed on the host (kernels launched thread by thread over a batch of three systems
    with different abundances and parameters, grid smaller than the batch) must give, system by system, the values
    the dense back-end's compiled Fex/Jac give for the same state.  Both sides are the real emitted code under
    ASan/UBSan; a difference is a layout disagreement between back-ends (C03), not a harness matter."""
    from ..harness import oderun as OR
    from ..harness.render import render

    try:
        fd = render(net, "dense", OR.TEMPLATES_CVODE)
        fc = render(net, "cusparse", None)
        neq = read_ode(fd, "dense").neq
    except Exception:
        return []  # judged by the text checks
    yvals = [[0.5 + ((7 * i + 3 * g) % 11) / 8.0 for i in range(neq)] for g in range(3)]  # fixed, pairwise different
    from ..ctext.stmts import read_macros

    mac = read_macros(fd["include/naunet_macros.h"])
    if "IDX_TGAS" in mac.text:
        for yv, T in zip(yvals, (8.0e3, 2.5e4, 1.2e4)):  # temperatures at which the cooling functions are not zero
            yv[mac.value("IDX_TGAS")] = T
    base = {"nH": 1e4, "Tgas": 50.0, "zeta": 1.3e-17, "Av": 1.0, "omega": 0.5, "mu": 1.3, "gamma": 1.6}
    plist = [dict(base, Tgas=T, nH=n, zeta=z) for T, n, z in ((50.0, 1e4, 1.3e-17), (220.0, 3e5, 5e-16), (15.0, 2e3, 2e-18))]
    rd = OR.build_and_run(fd, "dense", yvals, plist)
    rc = OR.build_and_run(fc, "cusparse", yvals, plist)
    case = dict(label, backend="cusparse", executed=True)
    if "error" in rd:
        return []  # the dense side is judged by the loop below
    if "error" in rc:
        if rc["error"] == "runtime":
            return [("C03:cuda-host-execution:sanitizer-or-abort", f"cuSPARSE sources executed on the host: {rc['detail']}", case)]
        return [("C03:cuda-host-execution:compile", f"cuSPARSE sources do not compile for the host: {rc['detail'][:300]}", case)]
    out = []
    for g, (a, b) in enumerate(zip(rd["runs"], rc["runs"])):
        for i, (x, y) in enumerate(zip(a["ydot"], b["ydot"])):
            if not _close(x, y):
                out.append(("C03:cuda-vs-dense:ydot", f"system {g} of a batch of 3: cuSPARSE FexKernel gives ydot[{i}] = {y!r}, the dense Fex gives {x!r} for the same state", case))
                return out
        for (r, c), x in a["jac"].items():
            y = b["jac"].get((r, c), 0.0)
            if not _close(x, y):
                out.append(("C03:cuda-vs-dense:jac", f"system {g} of a batch of 3: cuSPARSE JacKernel gives J[{r}][{c}] = {y!r}, the dense Jac gives {x!r} for the same state", case))
                return out
    return out


def library_matrix_case(i):
    """The matrix the generated LIBRARY hands to the integrator (created by Naunet::Init, created again by
    Naunet::Reset), filled by the routine the library registers as Jacobian, and read back the way its declared
    storage type says (dense, CSR or CSC): the entries must be the ones the dense back-end's Jac gives for the same
    state.  The integrator is a stand-in whose CVode() only asks the registered routine to fill the registered matrix."""
    import shutil
    import struct
    import subprocess
    import tempfile
    from pathlib import Path

    from ..core.runner import VERIF
    from ..ctext.stmts import read_macros
    from ..harness import oderun as OR
    from ..harness.cxx import GXX, SHIM, run as runcmd
    from ..harness.ratesrun import data_fields
    from ..harness.render import render, reset_globals, quiet, scratch

    reset_globals()
    from naunet.network import Network
    from naunet.reactions.reaction import Reaction
    from naunet.reactiontype import ReactionType

    def build():
        reacs = [
            Reaction(["H", "e-"], ["H+", "e-", "e-"], 1.0, 1e9, 1e-10, 0.5, 15.0, ReactionType.GAS_TWOBODY, 1),
            Reaction(["H+", "e-"], ["H"], 1.0, 1e9, 3e-12, -0.75, 0.0, ReactionType.GAS_TWOBODY, 2),
            Reaction(["H2", "CR"], ["H", "H"], -1.0, -1.0, 0.5, 0.0, 0.0, ReactionType.GAS_COSMICRAY, 3),
        ]
        return Network(reacs, cooling=[[], ["CIC_HI"]][i], required_species=["H", "e-", "H+", "H2"])

    viols = []
    n = 0
    with quiet():
        fd = render(build(), "dense", OR.TEMPLATES_CVODE)
    mac = read_macros(fd["include/naunet_macros.h"])
    neq = mac.value("NEQUATIONS")
    yv = [0.5 + ((7 * k + 3) % 11) / 8.0 for k in range(neq)]
    if "IDX_TGAS" in mac.text:
        yv[mac.value("IDX_TGAS")] = 8.0e3
    prm = {"nH": 3e5, "Tgas": 220.0, "zeta": 5e-16, "Av": 1.0, "omega": 0.5, "mu": 1.3, "gamma": 1.6}
    rd = OR.build_and_run(fd, "dense", [yv], [prm])
    if "error" in rd:
        raise HarnessError(f"library_matrix_case: dense reference: {rd['detail'][:200]}")
    ref = rd["runs"][0]["jac"]
    for backend in ("dense", "sparse"):
        with quiet():
            files = render(build(), backend, None)
        fields = data_fields(files)
        d = Path(tempfile.mkdtemp(dir=scratch()))
        try:
            for rel, text in files.items():
                p_ = d / rel
                p_.parent.mkdir(parents=True, exist_ok=True)
                p_.write_text(text)
            assign = "\n".join(f"    d.{f} = {prm[f]!r};" for f, _ in fields if f in prm)
            ytxt = ", ".join(repr(v) for v in yv)
            (d / "driver.cpp").write_text(f"""
#include <stdio.h>
#include "naunet.h"
#include <sunmatrix/sunmatrix_dense.h>
#include <sunmatrix/sunmatrix_sparse.h>
extern SUNMatrix verif_cv_matrix; extern int verif_cv_jac_ret;
char *verif_log_buf = NULL; size_t verif_log_len = 0;
static void dump(FILE *o) {{
    SUNMatrix A = verif_cv_matrix;
    double J[NEQUATIONS][NEQUATIONS];
    for (int r = 0; r < NEQUATIONS; r++) for (int c = 0; c < NEQUATIONS; c++) J[r][c] = 0.0;
    double kind = -1.0;
    if (A && A->kind == VERIF_MAT_SPARSE) {{
        kind = A->sparsetype == CSR_MAT ? 1.0 : 2.0;
        for (int p = 0; p < A->NP; p++) for (sunindextype q = A->indexptrs[p]; q < A->indexptrs[p + 1]; q++) {{
            int r = A->sparsetype == CSR_MAT ? p : (int)A->indexvals[q], c = A->sparsetype == CSR_MAT ? (int)A->indexvals[q] : p;
            if (r >= 0 && r < NEQUATIONS && c >= 0 && c < NEQUATIONS) J[r][c] = A->data[q]; else kind = -2.0;
        }}
    }} else if (A) {{
        kind = 0.0;
        for (int r = 0; r < NEQUATIONS; r++) for (int c = 0; c < NEQUATIONS; c++) J[r][c] = SM_ELEMENT_D(A, r, c);
    }}
    double head[4] = {{ kind, A ? (double)A->M : -1.0, A ? (double)A->N : -1.0, (double)verif_cv_jac_ret }};
    fwrite(head, sizeof(double), 4, o);
    fwrite(J, sizeof(double), NEQUATIONS * NEQUATIONS, o);
}}
int main() {{
    FILE *o = fopen("out.bin", "wb");
    Naunet n; NaunetData d;
{assign}
    double y0[NEQUATIONS] = {{ {ytxt} }}, y[NEQUATIONS];
    if (n.Init(1, 1e-20, 1e-5, 500) != NAUNET_SUCCESS) return 3;
    for (int i = 0; i < NEQUATIONS; i++) y[i] = y0[i];
    if (n.Solve(y, 1.0, &d) != NAUNET_SUCCESS) return 4;
    dump(o);
    if (n.Reset(1, 1e-18, 1e-4, 300) != NAUNET_SUCCESS) return 5;
    for (int i = 0; i < NEQUATIONS; i++) y[i] = y0[i];
    if (n.Solve(y, 1.0, &d) != NAUNET_SUCCESS) return 6;
    dump(o);
    n.Finalize();
    fclose(o);
    return 0;
}}
""")
            srcs = sorted(str(x.relative_to(d)) for x in (d / "src").glob("*.cpp"))
            cmd = [GXX, "-std=c++17", "-w", "-O0", "-g", "-fsanitize=address,undefined", "-fno-sanitize-recover=all", "-I", str(SHIM), "-I", "include", *srcs, str(VERIF / "cxx" / "stub_cvode.cpp"), "driver.cpp", "-o", "drv", "-lm"]
            rc, so, se = runcmd(cmd, cwd=str(d), timeout=600)
            case = {"library_matrix": i, "backend": backend}
            if rc != 0:
                first = next((ln for ln in se.splitlines() if "error" in ln), se[:200])
                raise HarnessError(f"library_matrix_case({backend}): {first[:300]}")
            pr = subprocess.run(["./drv"], cwd=str(d), capture_output=True, timeout=300, env={"ASAN_OPTIONS": "detect_leaks=0"})
            if pr.returncode != 0:
                err = pr.stderr.decode(errors="replace")
                head = next((ln for ln in err.splitlines() if "ERROR: AddressSanitizer" in ln or "runtime error" in ln), f"exit {pr.returncode}")
                viols.append((f"C03:library-matrix:{backend}:run", f"{backend}: Init / Solve / Reset / Solve of the generated library with a stand-in integrator: {head[:300]}", case))
                continue
            raw = (d / "out.bin").read_bytes()
            vals = struct.unpack(f"<{len(raw)//8}d", raw)
            per = 4 + neq * neq
            for stage, off in (("Init", 0), ("Reset", per)):
                n += 1
                kind, M, N, jret = vals[off : off + 4]
                J = vals[off + 4 : off + per]
                want_kind = 0.0 if backend == "dense" else 1.0
                if (M, N) != (float(neq), float(neq)) or kind < 0:
                    viols.append((f"C03:library-matrix:{backend}:shape:{stage}", f"{backend}: the matrix {stage} gives the integrator is {M:g} x {N:g} (kind {kind:g}), NEQUATIONS = {neq}", case))
                    continue
                bad = None
                for r in range(neq):
                    for c in range(neq):
                        x, y_ = ref.get((r, c), 0.0), J[r * neq + c]
                        if not _close(x, y_):
                            bad = (r, c, x, y_)
                            break
                    if bad:
                        break
                if bad:
                    how = {0.0: "dense", 1.0: "CSR", 2.0: "CSC (compressed sparse COLUMN)"}[kind]
                    viols.append((f"C03:library-matrix:{backend}:{'storage-type' if kind != want_kind else 'entries'}:{stage}", f"{backend}: the matrix created by {stage}, filled by the registered Jacobian routine and read as its declared storage type ({how}) has J[{bad[0]}][{bad[1]}] = {bad[3]!r}; the dense back-end gives {bad[2]!r}", case))
        finally:
            shutil.rmtree(d, ignore_errors=True)
    return n, viols


def cuda_fixed_case(i):
    """networks whose rate coefficients depend on the per-system user data (temperature law, cosmic-ray rate), with
    and without the thermal equation: the batch members differ in Tgas, nH and zeta, so a kernel that mixes up the
    systems' abundance windows *or* their user data disagrees with the dense back-end"""
    import random

    from ..harness.render import reset_globals, quiet

    reset_globals()
    from naunet.network import Network
    from naunet.reactions.reaction import Reaction
    from naunet.reactiontype import ReactionType

    with quiet():
        reacs = [
            Reaction(["H", "e-"], ["H+", "e-", "e-"], 1.0, 1e9, 1e-10, 0.5, 15.0, ReactionType.GAS_TWOBODY, 1),
            # (window [100, 1e9): of the systems one CUDA thread walks through - Tgas 220, 50, ... - some are inside, some outside)
            Reaction(["H+", "e-"], ["H"], 100.0, 1e9, 3e-12, -0.75, 0.0, ReactionType.GAS_TWOBODY, 2),
            Reaction(["H2", "CR"], ["H", "H"], -1.0, -1.0, 0.5, 0.0, 0.0, ReactionType.GAS_COSMICRAY, 3),
        ]
        net = Network(reacs, cooling=[[], ["CIC_HI"], ["CIC_HI", "RC_HII"]][i], required_species=["H", "e-", "H+", "H2"])
    n, viols = backends_vs_dense(net, {"fixed": i})
    return 1 + n, cuda_vs_dense(net, {"fixed": i}, random.Random(0)) + viols


def _close(x, y):
    import math

    if math.isnan(x) or math.isnan(y):
        return math.isnan(x) and math.isnan(y)
    return x == y or abs(x - y) <= 1e-12 * max(abs(x), abs(y))


def _prod(mono, val):
    out = 1.0
    for s, e in mono:
        out *= val(s) ** e
    return out


def run(ctx):
    allc = list(cases(ctx.tier))
    seen = set()
    uniq = []
    for d in allc:
        key = repr(sorted(oc.case_label(d).items()))
        if key not in seen:
            seen.add(key)
            uniq.append(d)
    evals = nsub = nontriv = 0
    shapes = set()
    for n, viols, (ns, nnz) in ctx.pmap(run_case, uniq, chunksize=1 if len(uniq) < 200 else 4):
        evals += n
        nsub += ns
        nontriv += int(nnz > 0)
        shapes.add(nnz)
        ctx.absorb(viols)
    # conformance + sanitizer pass on a seed-chosen slice (the enumeration above never depends on the seed)
    step = 97 if ctx.tier == "quick" else 23
    off = ctx.seed % step
    # modifier cases use free symbolic factors (f, g, ...) that are not declared C names: text checks only
    sub = [d for i, d in enumerate(uniq) if i % step == off and d.get("reactions") and not d.get("ode_modifier")]
    # the thermal row is where the batch layout of the CUDA kernels matters most: some thermal networks are always in
    therm = [d for d in uniq if d.get("cooling") and d.get("reactions") and not d.get("ode_modifier")]
    sub += [d for d in therm[:: max(1, len(therm) // 4)][:4] if d not in sub]
    nconf = 0
    ncuda = 0
    work = []
    for i, d in enumerate(sub):
        cuda = bool(d.get("cooling")) or i % (3 if ctx.tier == "quick" else 2) == 0
        ncuda += int(cuda)
        work.append((d, ctx.seed, cuda))
    for k, viols in ctx.pmap(cuda_fixed_case, [0, 1, 2]):
        ncuda += k
        ctx.absorb(viols)
    nlib = 0
    for k, viols in ctx.pmap(library_matrix_case, [0, 1]):
        nlib += k
        ctx.absorb(viols)
    for nv, viols in ctx.pmap(conformance_case, work):
        nconf += nv
        ctx.absorb(viols)
    ctx.assumptions += [
        "library objects: the matrix Naunet::Init and Naunet::Reset hand to the integrator (stand-in CVODE that only asks the registered Jacobian routine to fill the registered matrix) is read back according to its declared storage type and compared with the dense back-end's Jac on the same state (dense and sparse methods, with and without the thermal equation)",
        "bounds are judged against the sizes the generated headers declare (NEQUATIONS, NREACTIONS, NNZ, NHEATPROCS, NCOOLPROCS) as evaluated from the rendered naunet_macros.h",
        "every subscript in Fex/Jac text of all four back-ends is a compile-time constant (checked: a non-constant subscript outside the two copy loops is a harness error)",
        "cuSPARSE: the rendered .cu sources are compiled for the host (qualifiers defined away, K<<<g,b,..>>>(..) rewritten to a launcher that runs every thread of the grid in turn, device memory = exactly sized heap blocks, ASan/UBSan) and executed on a batch of 3 systems with a 1 x 2 grid, so the grid-stride loop and the per-system windows are exercised; per system the result must equal the dense back-end's compiled Fex/Jac on the same state (rel 1e-12). Kernels have no intra-block communication, so sequential execution of the threads is faithful",
    ]
    return {
        "evaluations": evals,
        "distinct_nontrivial": nontriv,
        "rule": "networks of C01 (incl. empty network, isolated species, thermal on/off) x 4 back-ends, pattern output on; non-trivial = NNZ > 0",
        "samples": [oc.case_label(uniq[i]) for i in (0, 1, len(uniq) // 2, len(uniq) - 1)],
        "networks": len(uniq),
        "subscripts_checked": nsub,
        "distinct_nnz_values": len(shapes),
        "conformance_networks_compiled_with_asan_ubsan": len(sub),
        "cuda_sources_executed_on_host_vs_dense": ncuda,
        "values_where_compiled_code_equals_E4": nconf,
        "library_matrices_read_back": nlib,
        "exhaustive": True,
    }


def replay(ctx, case):
    if "library_matrix" in case:
        ctx.absorb(library_matrix_case(case["library_matrix"])[1])
        return
    case = dict(case)
    case.pop("backend", None)
    executed = case.pop("executed", False)
    if "fixed" not in case:
        n, viols, _ = run_case(case)
        ctx.absorb(viols)
    if executed and "fixed" in case:
        ctx.absorb(cuda_fixed_case(case["fixed"])[1])
    elif executed:
        nv, viols = conformance_case((case, ctx.seed, True))
        ctx.absorb(viols)
