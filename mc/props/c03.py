"""C03 - sparse (CSR), dense and Odeint Jacobian layouts agree, are well-formed, in bounds."""
from __future__ import annotations

from ..core.runner import HarnessError
from ..ctext.odetext import NotC, read_ode
from . import odecommon as oc
from .c02 import modifier_cases, modifier_thermal_cases

LEVEL = "exploration"


def cases(tier):
    yield from oc.enum_examples(tier)  # slowest first
    yield from oc.enum_special(tier)
    yield from oc.enum_S1(tier)
    yield from oc.enum_S2(tier)
    yield from oc.enum_S3(tier)
    yield from oc.enum_S4(tier)
    yield from modifier_thermal_cases("quick")
    if tier != "quick":
        yield from modifier_cases("quick")


def run_case(desc):
    from ..harness.render import render, reset_globals

    reset_globals()
    viols = []
    label = oc.case_label(desc)
    try:
        net = oc.build_network(desc)
    except Exception as e:
        return 0, [(f"C03:build-error:{type(e).__name__}", f"network construction raised {e!r}", label)], (0, 0)
    ots = {}
    for b in oc.ALL_BACKENDS:
        try:
            files = render(net, b, "ode", jac_pattern=True)
            ot = read_ode(files, b)
        except NotC as e:
            viols.append((f"C03:not-c:{b}", f"emitted statement is not C: {e.stmt[:160]} ({e.why})", label))
            continue
        except HarnessError:
            raise
        except Exception as e:
            viols.append((f"C03:render-error:{b}:{type(e).__name__}", f"render raised {e!r}", label))
            continue
        ots[b] = ot
        if "jac_pattern.dat" not in files:
            viols.append((f"C03:pattern-missing:{b}", "jac_pattern requested but no file written", label))
        for sig, what in oc.check_c03_single(desc, ot, b, files):
            viols.append((sig, what, dict(label, backend=b)))
    if len(ots) > 1:
        for sig, what in oc.check_c03_cross(ots):
            viols.append((sig, what, label))
    nsub = sum(len(o.subscripts) for o in ots.values())
    nnz = ots["dense"].nnz_macro if "dense" in ots else 0
    return len(oc.ALL_BACKENDS), viols, (nsub, nnz)


def conformance_case(arg):
    """Compile Fex/Jac/EvalRates of one network for dense, sparse and rosenbrock4 with ASan/UBSan and
    exactly-sized heap buffers, run them on two abundance vectors, and compare every value with
    E4's evaluation of the same text (binds the reader to the real compiler)."""
    desc, seed = arg
    import random

    from ..ctext import poly as P
    from ..harness import oderun as OR
    from ..harness.render import render, reset_globals, quiet

    reset_globals()
    label = oc.case_label(desc)
    viols = []
    nvals = 0
    rng = random.Random(seed * 7919 + hash(repr(sorted(label.items()))) % 100003)
    try:
        with quiet():
            net = oc.build_network(desc)
    except Exception:
        return 0, []
    for backend in ("dense", "sparse", "rosenbrock4"):
        try:
            files = render(net, backend, OR.TEMPLATES_ODEINT if backend == "rosenbrock4" else OR.TEMPLATES_CVODE)
            ot = read_ode(files, backend)
        except Exception as e:
            continue  # judged by the text checks above
        neq = ot.neq
        yvals = [[rng.uniform(0.5, 2.0) for _ in range(neq)] for _ in range(2)]
        params = {"nH": 1e4, "Tgas": 50.0, "zeta": 1.3e-17, "Av": 1.0, "omega": 0.5, "mu": 1.3, "gamma": 1.6}
        res = OR.build_and_run(files, backend, yvals, params)
        if "error" in res:
            if res["error"] == "runtime":
                viols.append((f"C03:sanitizer:{backend}", f"{backend}: compiled Fex/Jac trips the sanitizer: {res['detail']}", dict(label, backend=backend)))
            else:
                viols.append((f"C03:conformance-compile:{backend}", f"{backend}: {res['detail'][:300]}", dict(label, backend=backend)))
            continue
        for yv, r in zip(yvals, res["runs"]):
            def val(sym):
                if sym.startswith("y:"):
                    return yv[int(sym[2:])]
                if sym.startswith("k:"):
                    return r["k"][int(sym[2:])]
                raise KeyError(sym)

            thermal = any(s.startswith(("kc:", "kh:")) or s in ("gamma", "kerg", "npar") for p in ot.ydot.values() for s in P.symbols(p))
            if thermal:
                continue  # kc/npar are not observable through this driver; the thermal row is judged on text
            for sl, p in ot.ydot.items():
                exp = float(sum(float(c) * _prod(m, val) for m, c in p.items()))
                got = r["ydot"][sl]
                nvals += 1
                if abs(got - exp) > 1e-9 * max(1.0, abs(exp)):
                    raise HarnessError(f"E4 disagrees with the compiled Fex on {label} [{backend}] slot {sl}: {got} vs {exp}")
            for (rr, cc), p in ot.jac.items():
                if rr == "?":
                    continue
                exp = float(sum(float(c) * _prod(m, val) for m, c in p.items()))
                got = r["jac"].get((rr, cc), 0.0)
                nvals += 1
                if abs(got - exp) > 1e-9 * max(1.0, abs(exp)):
                    raise HarnessError(f"E4 disagrees with the compiled Jac on {label} [{backend}] entry {(rr, cc)}: {got} vs {exp}")
            if r["csr"] is not None:
                rp, cv, dv = r["csr"]
                if rp != ot.rowptrs or cv != ot.colvals:
                    raise HarnessError(f"E4 CSR layout disagrees with the compiled Jac on {label}")
    return nvals, viols


def _prod(mono, val):
    out = 1.0
    for s, e in mono:
        out *= val(s) ** e
    return out


def run(ctx):
    allc = list(cases(ctx.tier))
    seen = set()
    uniq = []
    for d in allc:
        key = repr(sorted(oc.case_label(d).items()))
        if key not in seen:
            seen.add(key)
            uniq.append(d)
    evals = nsub = nontriv = 0
    shapes = set()
    for n, viols, (ns, nnz) in ctx.pmap(run_case, uniq, chunksize=1 if len(uniq) < 200 else 4):
        evals += n
        nsub += ns
        nontriv += int(nnz > 0)
        shapes.add(nnz)
        ctx.absorb(viols)
    # conformance + sanitizer pass on a seed-chosen slice (the enumeration above never depends on the seed)
    step = 97 if ctx.tier == "quick" else 23
    off = ctx.seed % step
    # modifier cases use free symbolic factors (f, g, ...) that are not declared C names: text checks only
    sub = [d for i, d in enumerate(uniq) if i % step == off and d.get("reactions") and not d.get("ode_modifier")]
    nconf = 0
    for nv, viols in ctx.pmap(conformance_case, [(d, ctx.seed) for d in sub]):
        nconf += nv
        ctx.absorb(viols)
    ctx.assumptions += [
        "bounds are judged against the sizes the generated headers declare (NEQUATIONS, NREACTIONS, NNZ, NHEATPROCS, NCOOLPROCS) as evaluated from the rendered naunet_macros.h",
        "every subscript in Fex/Jac text of all four back-ends is a compile-time constant (checked: a non-constant subscript outside the two copy loops is a harness error)",
    ]
    return {
        "evaluations": evals,
        "distinct_nontrivial": nontriv,
        "rule": "networks of C01 (incl. empty network, isolated species, thermal on/off) x 4 back-ends, pattern output on; non-trivial = NNZ > 0",
        "samples": [oc.case_label(uniq[i]) for i in (0, 1, len(uniq) // 2, len(uniq) - 1)],
        "networks": len(uniq),
        "subscripts_checked": nsub,
        "distinct_nnz_values": len(shapes),
        "conformance_networks_compiled_with_asan_ubsan": len(sub),
        "values_where_compiled_code_equals_E4": nconf,
        "exhaustive": True,
    }


def replay(ctx, case):
    case = dict(case)
    case.pop("backend", None)
    n, viols, _ = run_case(case)
    ctx.absorb(viols)
