"""C03 - sparse (CSR), dense and Odeint Jacobian layouts agree, are well-formed, in bounds."""
from __future__ import annotations

from ..core.runner import HarnessError
from ..ctext.odetext import NotC, read_ode
from . import odecommon as oc
from .c02 import modifier_cases, modifier_thermal_cases

LEVEL = "exploration"


def cases(tier):
    yield from oc.enum_special(tier)
    yield from oc.enum_S1(tier)
    yield from oc.enum_S2(tier)
    yield from oc.enum_S3(tier)
    yield from oc.enum_S4(tier)
    yield from modifier_thermal_cases("quick")
    if tier != "quick":
        yield from modifier_cases("quick")


def run_case(desc):
    from ..harness.render import render, reset_globals

    reset_globals()
    viols = []
    label = oc.case_label(desc)
    try:
        net = oc.build_network(desc)
    except Exception as e:
        return 0, [(f"C03:build-error:{type(e).__name__}", f"network construction raised {e!r}", label)], (0, 0)
    ots = {}
    for b in oc.ALL_BACKENDS:
        try:
            files = render(net, b, "ode", jac_pattern=True)
            ot = read_ode(files, b)
        except NotC as e:
            viols.append((f"C03:not-c:{b}", f"emitted statement is not C: {e.stmt[:160]} ({e.why})", label))
            continue
        except HarnessError:
            raise
        except Exception as e:
            viols.append((f"C03:render-error:{b}:{type(e).__name__}", f"render raised {e!r}", label))
            continue
        ots[b] = ot
        if "jac_pattern.dat" not in files:
            viols.append((f"C03:pattern-missing:{b}", "jac_pattern requested but no file written", label))
        for sig, what in oc.check_c03_single(desc, ot, b, files):
            viols.append((sig, what, dict(label, backend=b)))
    if len(ots) > 1:
        for sig, what in oc.check_c03_cross(ots):
            viols.append((sig, what, label))
    nsub = sum(len(o.subscripts) for o in ots.values())
    nnz = ots["dense"].nnz_macro if "dense" in ots else 0
    return len(oc.ALL_BACKENDS), viols, (nsub, nnz)


def run(ctx):
    allc = list(cases(ctx.tier))
    seen = set()
    uniq = []
    for d in allc:
        key = repr(sorted(oc.case_label(d).items()))
        if key not in seen:
            seen.add(key)
            uniq.append(d)
    evals = nsub = nontriv = 0
    shapes = set()
    for n, viols, (ns, nnz) in ctx.pmap(run_case, uniq, chunksize=16):
        evals += n
        nsub += ns
        nontriv += int(nnz > 0)
        shapes.add(nnz)
        ctx.absorb(viols)
    ctx.assumptions += [
        "bounds are judged against the sizes the generated headers declare (NEQUATIONS, NREACTIONS, NNZ, NHEATPROCS, NCOOLPROCS) as evaluated from the rendered naunet_macros.h",
        "every subscript in Fex/Jac text of all four back-ends is a compile-time constant (checked: a non-constant subscript outside the two copy loops is a harness error)",
    ]
    return {
        "evaluations": evals,
        "distinct_nontrivial": nontriv,
        "rule": "networks of C01 (incl. empty network, isolated species, thermal on/off) x 4 back-ends, pattern output on; non-trivial = NNZ > 0",
        "samples": [oc.case_label(uniq[i]) for i in (0, 1, len(uniq) // 2, len(uniq) - 1)],
        "networks": len(uniq),
        "subscripts_checked": nsub,
        "distinct_nnz_values": len(shapes),
        "exhaustive": True,
    }


def replay(ctx, case):
    case = dict(case)
    case.pop("backend", None)
    n, viols, _ = run_case(case)
    ctx.absorb(viols)
