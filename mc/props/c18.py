"""C18 - writing a network and reading it back preserves the model; an exported
project re-rendered from its own files never silently computes a different rate law."""
from __future__ import annotations

import itertools
import shutil
import tempfile
from pathlib import Path

from ..core.runner import HarnessError, guarded
from ..ref import formats as F
from ..ref.ratelaws import same
from . import c05, c07, c11

LEVEL = "exploration"


def snapshot(net):
    out = []
    for r in net.reaction_list:
        out.append(
            {
                "reactants": sorted(s.name for s in r.reactants),
                "products": sorted(s.name for s in r.products),
                "tmin": float(f"{r.temp_min:9.2f}"),
                "tmax": float(f"{r.temp_max:9.2f}"),
                "alpha": float(f"{r.alpha:10.3e}"),
                "beta": float(f"{r.beta:10.3e}"),
                "gamma": float(f"{r.gamma:10.3e}"),
                "type": int(r.reaction_type) if r.reaction_type is not None else None,
                "idx": r.idxfromfile,
                "source": r.source.strip() if isinstance(r.source, str) else r.source,
            }
        )
    return out


def run_roundtrip(arg):
    fmt, tier = arg
    from ..harness.render import reset_globals, scratch, quiet

    reset_globals()
    from naunet.network import Network

    cases = c07.gen_cases(fmt, tier)
    if fmt == "krome":
        return fmt, 0, []  # KROME reactions carry no native type; their export is judged in the export clause
    viols = []
    tmp = Path(tempfile.mkdtemp(dir=scratch()))
    nfiles = 0
    try:
        kw = {"species_kwargs": {"surface_prefix": "G"}} if fmt == "leeds" else {}
        for off in range(0, len(cases), 200):
            chunk = [c for c in cases[off : off + 200] if not (fmt == "leeds" and c[1].get("type") is None)]
            if not chunk:
                continue
            f = tmp / f"in.{fmt}"
            f.write_text("\n".join(c[2] for c in chunk) + "\n")
            case = {"fmt": fmt, "offset": off, "tier": tier}
            with quiet():
                net = Network(filelist=str(f), fileformats=fmt, **kw)
                s0 = snapshot(net)
                sp0 = [s.name for s in net.species]
                w1 = tmp / "w1.naunet"
                try:
                    net.write(w1, "naunet")
                except Exception as e:
                    viols.append((f"C18:write-raises:{fmt}:{type(e).__name__}", f"{fmt}: write raised {e!r}", case))
                    continue
                try:
                    n1 = Network(filelist=str(w1), fileformats="naunet", **kw)
                except Exception as e:
                    viols.append((f"C18:read-back-raises:{fmt}:{type(e).__name__}", f"{fmt}: reading the written file raised {e!r}", case))
                    continue
            nfiles += 1
            s1 = snapshot(n1)
            if len(s1) != len(s0):
                viols.append((f"C18:count:{fmt}", f"{fmt}: wrote {len(s0)} reactions, read back {len(s1)}", case))
                continue
            for a, b in zip(s0, s1):
                bad = [k for k in a if a[k] != b[k]]
                if bad:
                    viols.append((f"C18:field:{fmt}:{'+'.join(bad)}", f"{fmt}: reaction {a['reactants']}->{a['products']}: { {k: (a[k], b[k]) for k in bad} }", case))
                    break
            # raw source tag must come back exactly (no padding / newline glued on)
            raw0 = [r.source for r in net.reaction_list]
            raw1 = [r.source for r in n1.reaction_list]
            if raw0 != raw1:
                viols.append((f"C18:source-tag-raw", f"{fmt}: source tag written as {raw0[0]!r} is read back as {raw1[0]!r}", case))
            if [s.name for s in n1.species] != sp0:
                viols.append((f"C18:species:{fmt}", f"{fmt}: species list changed across the round trip", case))
            with quiet():
                w2 = tmp / "w2.naunet"
                n1.write(w2, "naunet")
            if w1.read_bytes() != w2.read_bytes():
                a_lines, b_lines = w1.read_text().split("\n"), w2.read_text().split("\n")
                viols.append((f"C18:second-cycle-not-identical", f"{fmt}: second write cycle differs: {len(a_lines)} vs {len(b_lines)} lines; first difference {next(((x, y) for x, y in zip(a_lines, b_lines) if x != y), None)}", case))
            else:
                with quiet():
                    try:
                        n2 = Network(filelist=str(w2), fileformats="naunet", **kw)
                        if snapshot(n2) != s1:
                            viols.append((f"C18:third-read-differs", f"{fmt}: third read differs", case))
                    except Exception as e:
                        viols.append((f"C18:third-read-raises:{type(e).__name__}", f"{fmt}: {e!r}", case))
            # a network read from a native file, edited through the API, written again: the file carries the edit
            with quiet():
                try:
                    ne = Network(filelist=str(w1), fileformats="naunet", **kw)
                    ne.remove_reaction(0)
                    for k, r in enumerate(ne.reaction_list[:5]):
                        r.alpha = 3.0e-11 * (k + 1)
                        r.temp_max = 777.0 + k
                    ne.reindex()
                    se = snapshot(ne)
                    w3 = tmp / "w3.naunet"
                    ne.write(w3, "naunet")
                    n3 = Network(filelist=str(w3), fileformats="naunet", **kw)
                    s3 = snapshot(n3)
                    if len(s3) != len(se):
                        viols.append((f"C18:after-edit:count:{fmt}", f"{fmt}: edited network has {len(se)} reactions, the file written from it gives {len(s3)}", case))
                    else:
                        for a, b in zip(se, s3):
                            bad = [k for k in a if a[k] != b[k]]
                            if bad:
                                viols.append((f"C18:after-edit:field:{'+'.join(bad)}", f"{fmt}: reaction {a['reactants']}->{a['products']} edited after reading a native file: { {k: (a[k], b[k]) for k in bad} } (in memory, read back)", case))
                                break
                except Exception as e:
                    viols.append((f"C18:after-edit:raises:{type(e).__name__}", f"{fmt}: edit/write/read of a network read from a native file raised {e!r}", case))
        return fmt, nfiles, viols
    finally:
        shutil.rmtree(tmp, ignore_errors=True)


def run_bundled(arg):
    """write/read/write cycles on the bundled network files"""
    path, fmt, kw = arg
    from ..harness.render import reset_globals, scratch, quiet

    reset_globals()
    from naunet.network import Network

    viols = []
    tmp = Path(tempfile.mkdtemp(dir=scratch()))
    case = {"bundled": path, "fmt": fmt, "kw": kw}
    name = Path(path).name
    try:
        with quiet():
            try:
                net = Network(filelist=path, fileformats=fmt, **kw)
            except Exception as e:
                return 0, []  # the file itself does not load with this configuration: not this property
            s0 = snapshot(net)
            w1 = tmp / "w1.naunet"
            try:
                net.write(w1, "naunet")
                n1 = Network(filelist=str(w1), fileformats="naunet", **{k: v for k, v in kw.items() if k != "grain_model"})
            except Exception as e:
                tag = "ice-prefix-G" if fmt == "leeds" and "unrecognizable" in str(e) else type(e).__name__
                return 1, [(f"C18:bundled-roundtrip-raises:{name}:{tag}", f"{name}: write/read raised {e!r}", case)]
            s1 = snapshot(n1)
            if len(s0) != len(s1):
                return 1, [(f"C18:bundled-count:{name}", f"{name}: {len(s0)} reactions written, {len(s1)} read back", case)]
            for a, b in zip(s0, s1):
                bad = [k for k in a if a[k] != b[k]]
                if bad:
                    viols.append((f"C18:bundled-field:{name}:{'+'.join(bad)}", f"{name}: {a['reactants']}->{a['products']}: { {k: (a[k], b[k]) for k in bad} }", case))
                    break
            w2 = tmp / "w2.naunet"
            n1.write(w2, "naunet")
            if w1.read_bytes() != w2.read_bytes():
                viols.append((f"C18:bundled-second-cycle:{name}", f"{name}: second cycle not byte-identical", case))
            if [s.name for s in net.species] != [s.name for s in n1.species]:
                viols.append((f"C18:bundled-species:{name}", f"{name}: species list differs after the round trip", case))
        return len(s0), viols
    finally:
        shutil.rmtree(tmp, ignore_errors=True)


def bundled(tier):
    from ..core.runner import REPO
    import importlib

    t = REPO / "tests" / "data"
    out = [(str(t / "minimal.kida"), "kida", {}), (str(t / "minimal.umist"), "umist", {}), (str(t / "minimal.krome"), "krome", {}), (str(t / "minimal.ucl"), "uclchem", {}),
           (str(t / "minimal.leeds"), "leeds", {}), (str(t / "duplicate.kida"), "kida", {}), (str(t / "multiduplicate.kida"), "kida", {})]
    pm = importlib.import_module("naunet.examples.primordial")
    out.append((str(REPO / "naunet" / "examples" / "primordial" / pm.files), "krome", {"elements": list(pm.elements), "pseudo_elements": list(pm.pseudo_elements)}))
    if tier != "quick":
        out.append((str(t / "rate12.umist"), "umist", {}))
        out.append((str(t / "rate12_HO.leeds"), "leeds", {"species_kwargs": {"surface_prefix": "G"}}))
        dm = importlib.import_module("naunet.examples.deuterium")
        out.append((str(REPO / "naunet" / "examples" / "deuterium" / dm.files), "krome", {"elements": list(dm.elements), "pseudo_elements": list(dm.pseudo_elements)}))
    return [o for o in out if Path(o[0]).exists() and Path(o[0]).stat().st_size > 0]


def run_api_shapes(_):
    """API-built reactions at and beyond what the native line can carry (3 reactants / 5 products):
    the cycle must reproduce the reaction or writing must be refused - never a silently different model"""
    from ..harness.render import reset_globals, scratch, quiet

    reset_globals()
    from naunet.network import Network
    from naunet.reactions.reaction import Reaction
    from naunet.reactiontype import ReactionType

    viols = []
    n = 0
    tmp = Path(tempfile.mkdtemp(dir=scratch()))
    try:
        names = ["H", "H2", "C", "O", "CO", "e-"]
        for nr in (1, 2, 3, 4):
            for np_ in (0, 1, 5, 6):
                for rot in range(3):
                    r = [names[(rot + i) % len(names)] for i in range(nr)]
                    p = [names[(rot + 2 * i + 1) % len(names)] for i in range(np_)]
                    case = {"api_shape": [nr, np_, rot]}
                    n += 1
                    with quiet():
                        net = Network([Reaction(list(r), list(p), 10.5, 300.25, -2.5e-11, 0.5, -3.0, ReactionType.GAS_TWOBODY, 99999)])
                        f = tmp / "a.naunet"
                        try:
                            net.write(f, "naunet")
                        except Exception:
                            continue  # refused: fine
                        try:
                            back = Network(filelist=str(f), fileformats="naunet")
                        except Exception as e:
                            viols.append((f"C18:api-shape:read-raises:{nr}r{np_}p", f"{r}->{p}: written but reading back raises {e!r}", case))
                            continue
                    got = snapshot(back)
                    exp = snapshot(net)
                    if got != exp:
                        what = "reactants/products" if (got and (got[0]["reactants"], got[0]["products"]) != (exp[0]["reactants"], exp[0]["products"])) or len(got) != len(exp) else "fields"
                        over = "beyond-format-capacity" if nr > 3 or np_ > 5 else "within-capacity"
                        viols.append((f"C18:api-shape:{over}:{what}", f"API reaction {r} -> {p} comes back as {got[0]['reactants'] if got else None} -> {got[0]['products'] if got else None} (and {len(got)} reactions)", case))
        # source tags a user-defined format or the API may assign (any length, inner blank, empty): written and read
        # back unchanged, one at a time and all in one file
        tags = ["osu_01_2009", "x", "UMIST-RATE12", "12345678", "123456789", "my db", "", "a_very_long_database_tag_2024"]
        for group in [[t_] for t_ in tags] + [tags]:
            n += 1
            case = {"api_shape": ["source-tags", group]}
            with quiet():
                rs = []
                for i_, t_ in enumerate(group):
                    r_ = Reaction(["C", "O"], ["CO"], 10.0, 300.0, 1e-10 * (i_ + 1), 0.0, 0.0, ReactionType.GAS_TWOBODY, i_)
                    r_.source = t_
                    rs.append(r_)
                f = tmp / "tags.naunet"
                try:
                    Network(rs).write(f, "naunet")
                    back = Network(filelist=str(f), fileformats="naunet")
                    got = [r_.source for r_ in back.reaction_list]
                except Exception as e:
                    viols.append((f"C18:source-tag-api:raises", f"source tags {group}: write/read raises {e!r}", case))
                    continue
            if got != group:
                viols.append((f"C18:source-tag-api", f"source tags {group} come back as {got}", case))
        # indices: any integer the writer prints must come back (labels below -1, 0, -1, six digits), and the second
        # cycle must be identical
        for group in ([-2, -3, 5], [0, -1, 7], [-2], [-10, 123456, 0], [-1, -1, -1]):
            n += 1
            case = {"api_shape": ["indices", group]}
            with quiet():
                rs = [Reaction(["C", "O"], ["CO"], 10.0, 300.0, 1e-10 * (i_ + 1), 0.0, 0.0, ReactionType.GAS_TWOBODY, ix) for i_, ix in enumerate(group)]
                f, f2 = tmp / "idx.naunet", tmp / "idx2.naunet"
                try:
                    Network(rs).write(f, "naunet")
                    back = Network(filelist=str(f), fileformats="naunet")
                    got = [r_.idxfromfile for r_ in back.reaction_list]
                    back.write(f2, "naunet")
                except Exception as e:
                    viols.append((f"C18:index-api:raises", f"indices {group}: write/read raises {e!r}", case))
                    continue
            if got != group:
                viols.append((f"C18:index-api", f"indices {group} come back as {got}", case))
            elif f.read_bytes() != f2.read_bytes():
                viols.append((f"C18:index-api:second-cycle", f"indices {group}: the second written file differs from the first", case))
        # networks that hold no reaction (a new network, a network after its reactions were removed or filtered out by
        # the allowed list): the written file reads back to no reaction and the same species
        for tag in ("new", "all-removed", "all-filtered", "only-required"):
            n += 1
            case = {"api_shape": ["empty", tag]}
            with quiet():
                rs = [Reaction(["H", "H2"], ["H2", "H"], 10.5, 300.25, 1e-11, 0.5, 3.0, ReactionType.GAS_TWOBODY, 7)]
                if tag == "new":
                    net = Network()
                elif tag == "all-removed":
                    net = Network(rs)
                    net.remove_reaction(0)
                elif tag == "all-filtered":
                    net = Network(rs, allowed_species=["C", "O"])
                else:
                    net = Network(required_species=["H", "He"])
                f = tmp / f"e_{tag}.naunet"
                try:
                    net.write(f, "naunet")
                    back = Network(filelist=str(f), fileformats="naunet")
                except Exception as e:
                    viols.append((f"C18:empty-network:raises", f"{tag}: writing / reading a network without reactions raises {e!r}", case))
                    continue
            if len(net.reaction_list) != 0:
                raise HarnessError(f"{tag}: expected an empty network")
            if len(back.reaction_list) != 0:
                viols.append((f"C18:empty-network:reactions-appear", f"{tag}: a network holding no reaction is written as {f.read_text()!r} and reads back with {len(back.reaction_list)} reaction(s): {[str(r) for r in back.reaction_list][:2]}", case))
        return n, viols
    finally:
        shutil.rmtree(tmp, ignore_errors=True)


# ---- export + re-render -------------------------------------------------------------------
def export_cases(tier):
    out = []
    seen = set()
    for t in c05.TYPES:
        fmt, code, law, marker, reac, prod, tag = t
        if fmt == "api":
            continue
        key = (fmt, code, tag)
        if key in seen:
            continue
        seen.add(key)
        out.append({"kind": "gas", "type": list(t)})
    out.append({"kind": "krome"})
    # a rate given as the sum of two fits (databases list such reactions twice: same reactants, products, window and
    # type, other coefficients) next to an unrelated reaction: every term must still be there after the re-rendering
    out.append({"kind": "multi", "fmt": "kida"})
    out.append({"kind": "multi", "fmt": "umist"})
    for model in c11.MODELS:
        for path in ("leeds", "uclchem", "api"):
            procs = set()
            for d in c11.reactions_for(path, model, {"grainspec": True}):
                if d["process"] in procs:
                    continue
                procs.add(d["process"])
                out.append({"kind": "grain", "model": model, "path": path, "desc": {k: d[k] for k in ("process", "species", "alpha", "r", "p", "code", "marker", "beta")}})
    return out


def run_export(case):
    from ..harness.render import reset_globals, scratch, quiet
    from ..harness import ratesrun as RR
    from ..harness.cli import run_command

    reset_globals()
    from naunet.network import Network
    from naunet.reactions.reaction import Reaction
    from naunet.reactiontype import ReactionType

    tmp = Path(tempfile.mkdtemp(dir=scratch()))
    try:
        kw = {}
        if case["kind"] == "gas":
            fmt, code, law, marker, reac, prod, tag = case["type"]
            label = f"{fmt}:{code}" + (f":{tag}" if tag else "")
            line = c05.encode(fmt, code, marker, reac, prod, 2.5, -0.5, 3.0, 1)
            f = tmp / f"in.{fmt}"
            f.write_text(line + "\n")
            if fmt == "leeds":
                kw["species_kwargs"] = {"surface_prefix": "G"}
            if fmt in ("leeds", "uclchem"):
                kw["required_species"] = ["CO", "H2", "H"]
            with quiet():
                net = Network(filelist=str(f), fileformats=fmt, **kw)
        elif case["kind"] == "multi":
            fmt = case["fmt"]
            label = f"{fmt}:two-term-fit"
            code = {"kida": 3, "umist": "NN"}[fmt]
            lines = [
                c05.encode(fmt, code, None, ["C+", "H2"], ["CH+", "H"], 1.0e-10, 0.0, 4640.0, 1),
                c05.encode(fmt, code, None, ["C+", "H2"], ["CH+", "H"], 7.4e-10, -0.5, 4537.0, 2),
                c05.encode(fmt, code, None, ["H", "CH+"], ["C+", "H2"], 7.5e-10, 0.0, 0.0, 3),
                c05.encode(fmt, code, None, ["C+", "H2"], ["CH+", "H"], 1.0e-10, 0.0, 4640.0, 4),
            ]
            f = tmp / f"in.{fmt}"
            f.write_text("\n".join(lines) + "\n")
            with quiet():
                net = Network(filelist=str(f), fileformats=fmt)
        elif case["kind"] == "krome":
            label = "krome:rate"
            f = tmp / "in.krome"
            f.write_text("@format:idx,R,R,R,P,P,P,P,Tmin,Tmax,rate\n1,H,H,,H2,,,,NONE,NONE,1.0d-10*(T32)**(-0.5)\n")
            with quiet():
                net = Network(filelist=str(f), fileformats="krome")
        else:
            d = case["desc"]
            model, path = case["model"], case["path"]
            label = f"{path}:{model}:{d['process']}"
            kw = {"grain_model": model, "required_species": ["H", "H2", "CO"]}
            if path == "leeds":
                kw["species_kwargs"] = {"surface_prefix": "G"}
            with quiet():
                if path == "api":
                    net = Network([Reaction(list(d["r"]), list(d["p"]), 1.0, 99999.0, d["alpha"], d["beta"], 0.0, ReactionType(d["code"]), 1)], **kw)
                else:
                    if path == "leeds":
                        line = c05.encode("leeds", d["code"], None, d["r"], d["p"], d["alpha"], d["beta"], 0.0, 1, 1, 99999)
                    else:
                        line = F.enc_uclchem(F.AReaction(d["r"], d["p"], d["alpha"], d["beta"], 0.0, 1.0, 99999.0, 1, None, d["marker"]))
                    f = tmp / f"in.{path}"
                    f.write_text(line + "\n")
                    net = Network(filelist=str(f), fileformats=path, **kw)
        if len(net.reaction_list) != (4 if case["kind"] == "multi" else 1):
            raise HarnessError(f"{label}: probe network has {len(net.reaction_list)} reactions")
        # direct rendering = what export itself renders
        with quiet():
            try:
                net.export("proj", prefix=tmp, overwrite=True)
            except Exception as e:
                return label, "direct-refused", []  # the direct rendering itself is refused: nothing to compare
        proj = tmp / "proj"

        def evaluate(tag):
            files = {}
            for p in proj.rglob("*"):
                if p.is_file() and (p.parent.name in ("include", "src")):
                    files[str(p.relative_to(proj))] = p.read_text()
            fields = [f for f, _ in RR.data_fields(files)]
            base = dict(c11.PARAMS)
            base.update({"Tdust": 12.0})
            grid = []
            for T in (10.0, 25.0):
                g = {k: v for k, v in base.items() if k in fields}
                g["Tgas"] = T
                for fld in fields:
                    g.setdefault(fld, 1.0)
                grid.append(g)
            from ..ctext.stmts import read_macros

            neq = read_macros(files["include/naunet_macros.h"]).value("NEQUATIONS")
            res = RR.build_and_run(files, grid, [[1e-6 * (i + 3) for i in range(neq)] for _ in grid])
            return res, fields

        r0, f0 = evaluate("direct")
        if r0.get("compile_error"):
            return label, "direct-does-not-compile", []
        st, o, err, exc = run_command("render", "--force", proj)
        if exc is not None:
            return label, f"refused:{type(exc).__name__}", []
        r1, f1 = evaluate("rerender")
        if r1.get("compile_error"):
            first = next((ln for ln in r1["compile_error"].splitlines() if "error" in ln), "")
            return label, "rerender-does-not-compile", []
        k0 = [x for row in r0["k"] for x in row]
        k1 = [x for row in r1["k"] for x in row]
        if len(k0) != len(k1) or not all(same(a, b, 1e-12) for a, b in zip(k0, k1)):
            return label, "differs", [(f"C18:export-rerender:{label}", f"{label}: exported project evaluates k = {k0}, the same project re-rendered from its own files evaluates k = {k1} (parameters: direct {f0}, re-rendered {f1})", case)]
        return label, "equal", []
    finally:
        shutil.rmtree(tmp, ignore_errors=True)


def run(ctx):
    import multiprocessing as mp

    work = [(f, ctx.tier) for f in c07.FORMATS]
    nfiles = 0
    for fmt, n, viols in ctx.pmap(run_roundtrip, work):
        nfiles += n
        ctx.absorb(viols)
    nb = 0
    for n, viols in ctx.pmap(run_bundled, bundled(ctx.tier)):
        nb += n
        ctx.absorb(viols)
    for n, viols in ctx.pmap(run_api_shapes, [0]):
        nb += n
        ctx.absorb(viols)
    ex = export_cases(ctx.tier)
    outcomes = {}
    with mp.get_context("fork").Pool(ctx.workers, maxtasksperchild=1) as pool:
        for label, outcome, viols in pool.imap_unordered(guarded(run_export), ex):
            outcomes[label] = outcome
            ctx.absorb(viols)
    ctx.assumptions += [
        "round trip: fields compared after rounding to the printed precision (10.3e for alpha/beta/gamma, 9.2f for the window), exactly as the property states; the raw source tag must come back unchanged",
        "export clause: one reaction per project so that a refusal can be attributed; 'direct rendering' = the sources Network.export writes from the original objects, 're-rendered' = `naunet render --force` inside the exported directory; both EvalRates are compiled and evaluated with the same physical values (zeta = zeta_cr, zeta_xr = 0)",
        "outcomes 'refused' (re-render raises), 'direct-refused' and 'does-not-compile' are not violations of this property",
    ]
    from collections import Counter

    return {
        "evaluations": nfiles + len(ex),
        "distinct_nontrivial": len(ex) + nfiles,
        "rule": "write/read/write/read cycles over the line space of C07 (5 formats, 200 reactions per file); export + re-render for every gas-phase (format,type) of C05, a KROME rate, and every (entry path, dust model, process) of C11, one reaction per exported project",
        "samples": ex[:3],
        "roundtrip_files": nfiles,
        "bundled_file_reactions_round_tripped": nb,
        "export_projects": len(ex),
        "export_outcomes": dict(Counter(outcomes.values())),
        "export_outcome_by_case": dict(sorted(outcomes.items())),
        "exhaustive": True,
    }


def replay(ctx, case):
    if "api_shape" in case:
        n, v = run_api_shapes(0)
        ctx.absorb(v)
    elif "bundled" in case:
        n, v = run_bundled((case["bundled"], case["fmt"], case["kw"]))
        ctx.absorb(v)
    elif "kind" in case:
        label, outcome, v = run_export(case)
        ctx.absorb(v)
    else:
        fmt, n, v = run_roundtrip((case["fmt"], case.get("tier", "thorough")))
        ctx.absorb(v)
