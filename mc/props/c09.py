"""C09 - one index per species: identifiers valid, unique and consistent everywhere."""
from __future__ import annotations

import ast
import itertools
import keyword
import re
import shutil
import tempfile
from pathlib import Path

from ..core.runner import HarnessError, guarded
from . import odecommon as oc

LEVEL = "exploration"

# (printed name, species kwargs, canonical identity, needs)   identity: two spellings of one species share it
POOL = [
    ("H", {}, "H"),
    ("H+", {}, "H+"),
    ("H++", {}, "H++"),
    ("H-", {}, "H-"),
    ("H--", {}, "H--"),
    ("e-", {}, "electron"),
    ("E", {}, "electron"),
    ("E-", {}, "electron"),
    ("oH2", {}, "oH2"),
    ("pH2", {}, "pH2"),
    ("PH2", {}, "PH2"),
    ("OH2", {}, "OH2"),
    ("#H", {}, "ice:H"),
    ("GH", {"surface_prefix": "G"}, "ice:H"),
    ("#H2", {}, "ice:H2"),
    ("#1H", {}, "ice1:H"),
    ("#2H", {}, "ice2:H"),
    ("GRAIN0", {}, "GRAIN0"),
    ("GRAIN0-", {}, "GRAIN0-"),
    ("H2", {}, "H2"),
    ("H2*", {}, "H2*"),
    ("c-C3H2", {}, "c-C3H2"),
    ("l-C3H2", {}, "l-C3H2"),
    ("CO", {}, "CO"),
    ("He", {}, "He"),
    ("He+", {}, "He+"),
]
QUICK_POOL = [p for p in POOL if p[0] in ('H', 'H+', 'H-', 'H--', 'e-', 'E', 'E-', 'oH2', 'OH2', '#H', 'GH', '#1H', '#2H', 'GRAIN0', 'H2', 'H2*', 'c-C3H2', 'l-C3H2', 'CO')]

# upper-case UCLCHEM convention: element list in capitals, a replacement table that restores the usual symbols
UCL_ELEMENTS = ["E", "H", "HE", "C", "O"]
UCL_PSEUDO = ["CRP", "PHOTON"]
UCL_REPLACEMENT = {"HE": "He", "E": "e"}
UCL_POOL = [
    ("H", {}, "H"),
    ("H+", {}, "H+"),
    ("H2", {}, "H2"),
    ("HE", {}, "He"),
    ("HE+", {}, "He+"),
    ("HE++", {}, "He++"),
    ("E-", {}, "electron"),
    ("HEH+", {}, "HeH+"),
    ("CO", {}, "CO"),
    ("#HE", {}, "ice:He"),
    ("#CO", {}, "ice:CO"),
    ("C-", {}, "C-"),
]
UCL_ALIASES = {"H": "HI", "H+": "HII", "H2": "H2I", "He": "HeI", "He+": "HeII", "He++": "HeIII", "electron": "eM", "HeH+": "HeHII", "CO": "COI", "ice:He": "GHeI", "ice:CO": "GCOI", "C-": "CM"}

IDENT = re.compile(r"^[A-Za-z_][A-Za-z0-9_]*$")


def subsets(tier):
    pool = QUICK_POOL if tier == "quick" else POOL
    kmax = 3 if tier == "quick" else 4
    for k in range(1, kmax + 1):
        for c in itertools.combinations(range(len(pool)), k):
            sel = [pool[i] for i in c]
            names = {n for n, _, _ in sel}
            # grain group 0 together with surface groups 1/2 is an inconsistent network (refused by design)
            if names & {"GRAIN0", "GRAIN0-"} and names & {"#1H", "#2H"}:
                continue
            yield sel
    # one set beyond single-digit sizes (slot values >= 10)
    yield [e for e in pool if e[0] not in ("#1H", "#2H")]


def ucl_subsets(tier):
    kmax = 3 if tier == "quick" else 4
    for k in range(1, kmax + 1):
        for c in itertools.combinations(UCL_POOL, k):
            yield list(c)


def parse_macro_lines(text):
    """raw '#define IDX_... value' lines (an illegal identifier must be *seen*, not rejected by the reader)"""
    out = []
    for ln in text.splitlines():
        m = re.match(r"^\s*#\s*define\s+(IDX_\S+)\s+(\S+)\s*$", ln)
        if m:
            out.append((m.group(1), m.group(2)))
    return out


def py_assignments(text):
    """[(name, value)] of a rendered python module; SyntaxError is reported by the caller"""
    tree = ast.parse(text)
    out = []
    for node in tree.body:
        if isinstance(node, ast.Assign) and len(node.targets) == 1 and isinstance(node.targets[0], ast.Name):
            try:
                out.append((node.targets[0].id, ast.literal_eval(node.value)))
            except Exception:
                out.append((node.targets[0].id, None))
    return out


def build(entries, via, ucl=False):
    from naunet.network import Network
    from naunet.reactions.reaction import Reaction
    from naunet.reactiontype import ReactionType
    from naunet.species import Species

    if ucl:
        # what RenderCommand does for such a project
        Species._replacement = dict(UCL_REPLACEMENT)
        Species.set_known_elements(list(UCL_ELEMENTS))
        Species.set_known_pseudoelements(list(UCL_PSEUDO))
        kw = {"elements": list(UCL_ELEMENTS), "pseudo_elements": list(UCL_PSEUDO)}
        names = [n for n, _, _ in entries]
        if via == "required":
            return Network(required_species=names, **kw)
        reac = names[:2] if len(names) > 2 else names[:1]
        prod = names[2:] if len(names) > 2 else (names[1:] or names[:1])
        return Network([Reaction(reac, prod, reaction_type=ReactionType.GAS_TWOBODY, alpha=1.0)], **kw)

    if via == "required":
        if any(kw for _, kw, _ in entries):
            return None
        return Network(required_species=[n for n, _, _ in entries])
    sp = [Species(n, **kw) for n, kw, _ in entries]
    reac = sp[:2] if len(sp) > 1 else sp[:1]
    prod = sp[2:] if len(sp) > 2 else (sp[1:] if len(sp) > 1 else sp[:1])
    if len(sp) == 2:
        reac, prod = sp[:1], sp[1:]
    return Network([Reaction(reac, prod, reaction_type=ReactionType.GAS_TWOBODY, alpha=1.0)])


def check_files(files, backend, nexp, label, viols, ids_expected):
    macs = parse_macro_lines(files["include/naunet_macros.h"])
    spec = [(n, v) for n, v in macs if not n.startswith("IDX_ELEM_") and n != "IDX_TGAS"]
    elem = [(n, v) for n, v in macs if n.startswith("IDX_ELEM_")]
    m = re.search(r"#define\s+NSPECIES\s+(\d+)", files["include/naunet_macros.h"])
    nspec = int(m.group(1))
    m = re.search(r"#define\s+NELEMENTS\s+(\d+)", files["include/naunet_macros.h"])
    nelem = int(m.group(1))
    if nspec != nexp:
        viols.append((f"C09:nspecies", f"{label}: NSPECIES={nspec} but {nexp} distinct species were given", None))
    for n, v in spec + elem:
        if not IDENT.match(n) or keyword.iskeyword(n):
            ch = "".join(sorted(set(re.sub(r"[A-Za-z0-9_]", "", n))))
            viols.append((f"C09:illegal-identifier:{ch}", f"{label}: generated macro name {n!r} is not a C/Python identifier", None))
    names = [n for n, _ in spec]
    if len(set(names)) != len(names):
        dups = sorted({x for x in names if names.count(x) > 1})
        tag = "surface-group" if any(n in label for n in ("#1H", "#2H")) and all(d.startswith("IDX_G") for d in dups) else "other"
        viols.append((f"C09:duplicate-identifier:{tag}", f"{label}: identifiers {dups} generated twice", None))
    try:
        vals = [int(v) for _, v in spec]
    except ValueError:
        vals = None
    if vals is not None and sorted(vals) != list(range(nspec)):
        viols.append((f"C09:not-bijective", f"{label}: species macro values {vals} are not 0..{nspec-1}", None))
    evals = [int(v) for _, v in elem]
    if sorted(evals) != list(range(nelem)):
        viols.append((f"C09:elements-not-bijective", f"{label}: element macro values {evals} NELEMENTS={nelem}", None))
    # python modules
    ci = files.get("python/pynaunet_model/constant_indexes.py")
    cs = files.get("python/pynaunet_model/constants.py")
    if ci is not None:
        try:
            pa = py_assignments(ci)
        except SyntaxError as e:
            viols.append((f"C09:constant_indexes-syntax", f"{label}: constant_indexes.py is not valid Python: {e.msg} in {e.text!r}", None))
            pa = None
        if pa is not None:
            pspec = [(n, str(v)) for n, v in pa if n.startswith("IDX_") and not n.startswith("IDX_ELEM_")]
            pel = [(n, str(v)) for n, v in pa if n.startswith("IDX_ELEM_")]
            if pspec != spec or pel != elem:
                viols.append((f"C09:macros-vs-constant_indexes", f"{label}: C macros {spec} vs python constants {pspec}", None))
    if cs is not None:
        try:
            ca = dict(py_assignments(cs))
        except SyntaxError as e:
            viols.append((f"C09:constants-syntax", f"{label}: constants.py is not valid Python: {e.msg}", None))
            ca = None
        if ca is not None:
            if ca.get("NSPEC") != nspec or len(ca.get("ALL_SPECIES", [])) != nspec or len(ca.get("ALL_ALIAS", [])) != nspec:
                viols.append((f"C09:constants-count", f"{label}: NSPEC={ca.get('NSPEC')} ALL_SPECIES={ca.get('ALL_SPECIES')} vs NSPECIES={nspec}", None))
            order = [n for n, v in sorted(spec, key=lambda t: int(t[1]))] if vals is not None else names
            if ["IDX_" + a for a in ca.get("ALL_ALIAS", [])] != order:
                viols.append((f"C09:constants-order", f"{label}: ALL_ALIAS {ca.get('ALL_ALIAS')} vs macro order {order}", None))
            if ca.get("NELEM") != nelem or len(ca.get("ALL_ELEMENTS", [])) != nelem:
                viols.append((f"C09:constants-elements", f"{label}: NELEM={ca.get('NELEM')} vs NELEMENTS={nelem}", None))
            if ca.get("NGAS", 0) + ca.get("NICE", 0) != nspec:
                viols.append((f"C09:constants-gas-ice", f"{label}: NGAS+NICE={ca.get('NGAS')}+{ca.get('NICE')} != {nspec}", None))
            # the per-phase lists partition ALL_SPECIES in its order, and their lengths are the counts next to them
            allsp, gas, ice, grn = (list(ca.get(k, [])) for k in ("ALL_SPECIES", "ALL_GAS_SPECIES", "ALL_ICE_SPECIES", "ALL_GRAIN_SPECIES"))
            if [x for x in allsp if x in set(gas)] != gas or [x for x in allsp if x in set(ice)] != ice or sorted(gas + ice) != sorted(allsp) or (len(gas), len(ice), len(grn)) != (ca.get("NGAS"), ca.get("NICE"), ca.get("NGRAIN")):
                viols.append((f"C09:constants-phase-lists", f"{label}: ALL_GAS_SPECIES {gas} / ALL_ICE_SPECIES {ice} / ALL_GRAIN_SPECIES {grn} (NGAS, NICE, NGRAIN = {ca.get('NGAS')}, {ca.get('NICE')}, {ca.get('NGRAIN')}) do not partition ALL_SPECIES {allsp}", None))
            # the per-element table against the C helper that sums the same counts (GetElementAbund)
            tab = ca.get("TABLE_SPECIES_GROUPED_BY_ELEMENTS")
            if isinstance(tab, dict) and "src/naunet_physics.cpp" in files and vals is not None and len(set(names)) == len(names):
                from ..ctext.stmts import read_macros
                from .c04 import read_element_abund

                mac = read_macros(files["include/naunet_macros.h"])
                ea = read_element_abund(files, mac) or {}
                slot_name = {}
                for (n_, v_), nm_ in zip(sorted(spec, key=lambda t: int(t[1])), allsp):
                    slot_name[int(v_)] = nm_
                for en, ev in elem:
                    ename = en[len("IDX_ELEM_"):]
                    poly = ea.get(int(ev), {})
                    want_t = {}
                    for mono, coef in poly.items():
                        syms = [sy for sy, _ in mono]
                        if len(syms) == 1 and syms[0].startswith("y:"):
                            want_t[slot_name.get(int(syms[0][2:]), syms[0])] = int(coef) if float(coef).is_integer() else float(coef)
                    got_t = tab.get(ename)
                    if got_t is None:
                        continue  # the grain pseudo-element is keyed by its species name (GRAIN0) on the python side: not judged
                    if got_t != want_t:
                        viols.append((f"C09:constants-element-table", f"{label}: TABLE_SPECIES_GROUPED_BY_ELEMENTS[{ename!r}] = {got_t}, the C helper GetElementAbund sums {want_t} for that element", None))
                        break
    return spec, elem, nspec


# further Enzo files that list the non-Grackle species once each, in slot order: template -> pattern of one list entry
ENZO_LISTS = ["Grid.h.j2", "hydro_rk/Grid_ReturnHydroRKPointers.C.j2", "hydro_rk/Grid_ReturnOldHydroRKPointers.C.j2", "hydro_rk/Grid_TurbulenceInitializeGrid.C.j2",
              "hydro_rk/Grid_CollapseMHD3DInitializeGrid.C.j2", "hydro_rk/TurbulenceInitialize.C.j2", "hydro_rk/CollapseMHD3DInitialize.C.j2"]
ENZO_LIST_PATTERNS = {
    "hydro_rk/Grid_ReturnHydroRKPointers.C": [r"Prim\[nfield\+\+\]\s*=\s*BaryonField\[(\S+?)Num\];"],
    "hydro_rk/Grid_ReturnOldHydroRKPointers.C": [r"Prim\[nfield\+\+\]\s*=\s*OldBaryonField\[(\S+?)Num\];"],
    "hydro_rk/Grid_TurbulenceInitializeGrid.C": [r"FieldType\[(\S+?)Num\s*=\s*NumberOfBaryonFields\+\+\]\s*=\s*(\S+?)Density;"],
    "hydro_rk/Grid_CollapseMHD3DInitializeGrid.C": [r"FieldType\[(\S+?)Num\s*=\s*NumberOfBaryonFields\+\+\]\s*=\s*(\S+?)Density;"],
    "hydro_rk/TurbulenceInitialize.C": [r"const char \*(\S+?)Name\s*=\s*\"(\S+?)_Density\";", r"DataLabel\[count\+\+\]\s*=\s*\(char\*\)\s*(\S+?)Name;"],
    "hydro_rk/CollapseMHD3DInitialize.C": [r"const char \*(\S+?)Name\s*=\s*\"(\S+?)_Density\";", r"DataLabel\[count\+\+\]\s*=\s*\(char\*\)\s*(\S+?)Name;"],
}
GRACKLE_ALIAS = {"electron": "De", "H": "HI", "H+": "HII", "He": "HeI", "He+": "HeII", "He++": "HeIII", "H-": "HM", "H2": "H2I", "H2+": "H2II", "D": "DI", "D+": "DII", "HD": "HDI"}
ENZO_DEFINED = set(GRACKLE_ALIAS) | {"C", "C+", "O", "O+", "Si", "Si+", "Si++", "CH", "CH2", "CH3+", "C2", "CO", "HCO+", "OH", "H2O", "O2"}


def yt_fields(out, net, order, label, viols):
    """the yt companion of the Enzo patch (derived_fields_of_network.py): its table hands out one identifier per
    species name; every identifier the table hands out, and every '<x>_ndensity' field a definition reads, must be a
    derived field the same file defines, and the table has one entry per species, in slot order"""
    import ast

    f = out / "derived_fields_of_network.py"
    if not f.exists():
        viols.append(("C09:yt-fields:missing", f"{label}: the Enzo patch wrote no derived_fields_of_network.py", None))
        return
    txt = f.read_text()
    try:
        tree = ast.parse(txt)
    except SyntaxError as e:
        viols.append(("C09:yt-fields:not-python", f"{label}: derived_fields_of_network.py is not Python: {e}", None))
        return
    defined = {n.name for n in tree.body if isinstance(n, ast.FunctionDef)}
    named = set()
    for n in tree.body:
        if isinstance(n, ast.FunctionDef):
            for dec in n.decorator_list:
                if isinstance(dec, ast.Call):
                    for kw in dec.keywords:
                        if kw.arg == "name" and isinstance(kw.value, ast.Constant):
                            named.add(kw.value.value)
    table = None
    for n in tree.body:
        if isinstance(n, ast.Assign) and any(isinstance(t, ast.Name) and t.id == "derived_fields_map" for t in n.targets):
            try:
                table = ast.literal_eval(n.value)
            except Exception:
                table = None
    if not isinstance(table, dict):
        viols.append(("C09:yt-fields:no-table", f"{label}: derived_fields_of_network.py has no literal derived_fields_map", None))
        return
    keys = [k for k in table if not str(k).startswith(("Elem", "IceElem", "SurfElem"))]
    names = [sp.name for sp in net.species]
    if keys[: len(names)] != names:
        viols.append(("C09:yt-fields:species-keys", f"{label}: derived_fields_map lists {keys[:len(names)]}, the species in slot order are {names}", None))
    for k, v in table.items():
        if v not in defined or v not in named:
            viols.append(("C09:yt-fields:undefined-field", f"{label}: derived_fields_map[{k!r}] = {v!r}, but the file defines no derived field of that name (defined: {sorted(named)[:12]} ...)", None))
            break
    used = set(re.findall(r"data\['(\w+_ndensity)'\]", txt))
    if used - named:
        viols.append(("C09:yt-fields:undefined-reference", f"{label}: derived_fields_of_network.py reads {sorted(used - named)}, which it never defines", None))


def enzo_tables(out, net, entries, order, label, viols):
    """per-species tables of the Enzo patch: the abundance <-> field copy loops, the field lookup and the enum of
    new field types must all list every species once, in slot order, paired with its own field"""
    ident = {}
    for n, kw, i in entries:
        ident[n] = i
    ids = [ident.get(sp.name) for sp in net.species]
    if None in ids or len(ids) != len(order):
        return  # the species list itself is judged above
    var = [(GRACKLE_ALIAS[i] if i in GRACKLE_ALIAS else a) + "Num" for i, a in zip(ids, order)]
    w = (out / "Grid_NaunetWrapper.C").read_text()
    fwd = re.findall(r"y\[IDX_(\S+?)\]\s*=\s*max\(BaryonField\[(\S+?)\]\[igrid\]", w)
    bwd = re.findall(r"BaryonField\[(\S+?)\]\[igrid\]\s*=\s*max\(y\[IDX_(\S+?)\]", w)
    want = list(zip(order, var))
    if fwd != want:
        viols.append((f"C09:enzo-wrapper:load", f"{label}: Grid_NaunetWrapper.C loads {fwd}, slot order / field pairing prescribes {want}", None))
    if [(b, a) for a, b in bwd] != want:
        viols.append((f"C09:enzo-wrapper:store", f"{label}: Grid_NaunetWrapper.C stores {bwd}, expected {[(b, a) for a, b in want]}", None))
    f = (out / "Grid_IdentifyNaunetSpeciesFields.C").read_text()
    head = f[f.index("int grid::IdentifyNaunetSpeciesFields(") :]
    params = re.findall(r"int\s*&\s*(\w+)", head[: head.index(")")])
    if params != var:
        viols.append((f"C09:enzo-identify:parameters", f"{label}: IdentifyNaunetSpeciesFields takes {params}, expected {var}", None))
    finds = re.findall(r"(\S+)\s*=\s*FindField\((\S+?)Density\s*,", f)
    wantf = [(v, "Electron" if i == "electron" else v[:-3]) for v, i in zip(var, ids)]
    if finds != wantf:
        viols.append((f"C09:enzo-identify:findfield", f"{label}: field lookups {finds}, expected {wantf}", None))
    # species Grackle does not know: their charge-weighted contribution to the electron density, one line per charged
    # species pairing its own field with its own charge and mass number; and the primitive-variable list
    extra = [(sp, v) for sp, i, v in zip(net.species, ids, var) if i not in GRACKLE_ALIAS]
    u = (out / "hydro_rk" / "Grid_UpdateElectronDensity.C").read_text()
    got = re.findall(r"BaryonField\[DeNum\]\[i\]\s*\+=\s*(\S+)\s*\*\s*BaryonField\[(\S+?)\]\[i\]\s*/\s*(\S+?);", u)
    wantu = [(f"{float(sp.charge):.1f}", v, str(sp.massnumber)) for sp, v in extra if sp.charge != 0]
    if got != wantu:
        viols.append((f"C09:enzo-electron-density", f"{label}: Grid_UpdateElectronDensity.C adds {got}, the charged non-Grackle species are {wantu} (charge, field, mass number)", None))
    wantl = [v[:-3] for _, v in extra]
    for rel, pats in ENZO_LIST_PATTERNS.items():
        txt = "\n".join(re.findall(r"#ifdef USE_NAUNET(.*?)#endif", (out / rel).read_text(), re.S))
        for pat in pats:
            found = re.findall(pat, txt)
            names = [(f if isinstance(f, str) else f[0]) for f in found]
            pairs_ok = all(isinstance(f, str) or f[0] == f[1] for f in found)
            if names != wantl or not pairs_ok:
                viols.append((f"C09:enzo-list:{rel.split('/')[-1]}", f"{label}: {rel} lists {names} (pairs consistent: {pairs_ok}), the non-Grackle species in slot order are {wantl}", None))
                break
    # every declaration, definition and call of the field lookup names the same fields in the same order
    for rel in sorted(str(q.relative_to(out)) for q in out.rglob("*") if q.is_file()):
        txt = (out / rel).read_text(errors="replace")
        for m in re.finditer(r"IdentifyNaunetSpeciesFields\s*\(([^)]*)\)", txt):
            args = [re.sub(r"^int\s*&\s*", "", a.strip()) for a in m.group(1).replace("\n", " ").split(",") if a.strip()]
            if args and all(a.endswith("Num") for a in args) and args != var:
                viols.append((f"C09:enzo-identify-call:{rel.split('/')[-1]}", f"{label}: {rel} uses IdentifyNaunetSpeciesFields({', '.join(args)}), the fields in slot order are {var}", None))
                break
    t = (out / "typedefs.h").read_text()
    new = [(n, int(v)) for n, v in re.findall(r"^\s*(\S+)Density\s*=\s*(\d+),\s*$", t, re.M) if int(v) >= 104]
    wantn = [a for i, a in zip(ids, order) if i not in ENZO_DEFINED]
    m = re.search(r"FieldUndefined\s*=\s*(\d+)", t)
    if [n for n, _ in new] != wantn or [v for _, v in new] != list(range(104, 104 + len(wantn))) or not m or int(m.group(1)) != 104 + len(wantn):
        viols.append((f"C09:enzo-typedefs", f"{label}: new field types {new} FieldUndefined={m.group(1) if m else None}, expected {wantn} numbered from 104", None))


def run_case(arg):
    idx, entries, tier = arg[:3]
    ucl = len(arg) > 3 and arg[3] == "ucl"
    from ..harness.render import render, reset_globals, quiet, scratch

    viols = []
    label = ("UCL:" if ucl else "") + "+".join(n + ("[G]" if kw else "") for n, kw, _ in entries)
    case = {"species": [[n, kw] for n, kw, _ in entries], "ucl": ucl}
    nexp = len({i for _, _, i in entries})
    nart = 0
    for via in ("reaction", "required"):
        reset_globals()
        try:
            with quiet():
                net = build(entries, via, ucl)
        except Exception as e:
            viols.append((f"C09:build-error:{'ucl:' if ucl else ''}{via}:{type(e).__name__}", f"{label} via {via}: {e!r}", None))
            continue
        if net is None:
            continue
        tm = ["include/naunet_macros.h.j2", "python/pynaunet_model/constant_indexes.py.j2", "python/pynaunet_model/constants.py.j2", "src/naunet_physics.cpp.j2"]
        base = None
        for b in oc.ALL_BACKENDS:
            try:
                files = render(net, b, tm if b in ("dense", "rosenbrock4") else tm[:1])
            except Exception as e:
                viols.append((f"C09:render-error:{type(e).__name__}", f"{label} via {via} [{b}]: {e!r}", None))
                continue
            nart += len(files)
            spec, elem, nspec = check_files(files, b, nexp, f"{label} via {via} [{b}]", viols, None)
            if base is None:
                base = (spec, elem, nspec)
            elif (spec, elem, nspec) != base:
                viols.append((f"C09:backends-differ", f"{label}: macros of {b} differ from dense", None))
        if base is None:
            continue
        spec = base[0]
        order = [n[4:] for n, v in sorted(spec, key=lambda t: int(t[1]) if t[1].isdigit() else 0)]
        if ucl:
            want = sorted(UCL_ALIASES[i] for i in {i for _, _, i in entries})
            if sorted(order) != want:
                viols.append((f"C09:ucl-aliases", f"{label} via {via}: macros {sorted(order)}, the replacement table prescribes {want}", None))
        # summary block through NetworkConfiguration (export path)
        try:
            import tomlkit
            from naunet.configuration import NetworkConfiguration

            with quiet():
                content = NetworkConfiguration("p", net).content
            summ = tomlkit.loads(content)["summary"]
            nart += 1
            if list(summ["list_of_species_alias"]) != order or int(summ["num_of_species"]) != base[2]:
                viols.append((f"C09:summary-config", f"{label}: summary alias list {list(summ['list_of_species_alias'])} vs macro order {order}", None))
            if int(summ["num_of_gas_species"]) + int(summ["num_of_ice_species"]) != base[2]:
                viols.append((f"C09:summary-gas-ice", f"{label}: gas+ice {summ['num_of_gas_species']}+{summ['num_of_ice_species']} != {base[2]}", None))
        except Exception as e:
            if not (type(e).__name__ == "RuntimeError" and "binding energy" in str(e)):
                viols.append((f"C09:summary-config-error:{type(e).__name__}", f"{label}: NetworkConfiguration raised {e!r}", None))
        # Enzo patch and the render command on a slice
        if via == "reaction" and (idx % (7 if tier == "quick" else 3) == 0 or any(n in ("E", "e-") for n, _, _ in entries)):
            from naunet.patches import EnzoPatch

            out = Path(tempfile.mkdtemp(dir=scratch()))
            try:
                with quiet():
                    EnzoPatch("cpu").render(net, templates=["naunet_enzo.h.j2", "Grid_NaunetWrapper.C.j2", "Grid_IdentifyNaunetSpeciesFields.C.j2", "typedefs.h.j2", "hydro_rk/Grid_UpdateElectronDensity.C.j2", "derived_fields.py"] + ENZO_LISTS, path=out)
                yt_fields(out, net, order, label, viols)
                txt = (out / "naunet_enzo.h").read_text()
                nart += 5 + len(ENZO_LISTS)
                enzo_tables(out, net, entries, order, label, viols)
                adef = re.findall(r"^#define\s+(A_\S+)\s+(\S+)\s*$", txt, re.M)
                body = txt[txt.index("A_Table") :]
                rows = re.findall(r"\b(A_[^\s,]+)", body[body.index("{") : body.index("}")])
                # ENZO_NSPECIES = |network species U the 12 Grackle species| - 1 (electron), by species identity
                grackle_ids = {"electron", "H", "H+", "He", "He+", "He++", "H-", "H2", "H2+", "D", "D+", "HD"}
                want = len({i for _, _, i in entries} | grackle_ids) - 1
                m = re.search(r"^#define\s+ENZO_NSPECIES\s+(\S+)\s*$", txt, re.M)
                if not m or m.group(1) != str(want):
                    viols.append((f"C09:enzo-nspecies", f"{label}: ENZO_NSPECIES = {m.group(1) if m else None}, expected {want} (network and Grackle species counted once each, electron excluded)", None))
                if len(adef) != base[2] or len(rows) != base[2]:
                    viols.append((f"C09:enzo-count", f"{label}: {len(adef)} A_ macros / {len(rows)} table rows for NSPECIES={base[2]}", None))
                if [a for a, _ in adef] != rows:
                    viols.append((f"C09:enzo-order", f"{label}: A_ defines {adef} vs table {rows}", None))
                if len({a for a, _ in adef}) != len(adef):
                    tag = "surface-group" if any(n in label for n in ("#1H", "#2H")) else "other"
                    viols.append((f"C09:enzo-duplicate:{tag}", f"{label}: duplicate A_ macros {adef}", None))
                for a, _ in adef:
                    if not IDENT.match(a):
                        ch = "".join(sorted(set(re.sub(r"[A-Za-z0-9_]", "", a))))
                        viols.append((f"C09:enzo-illegal-identifier:{ch}", f"{label}: {a!r} in naunet_enzo.h is not an identifier", None))
            except Exception as e:
                viols.append((f"C09:enzo-error:{type(e).__name__}", f"{label}: EnzoPatch raised {e!r}", None))
            finally:
                shutil.rmtree(out, ignore_errors=True)
    return nart, [(s, w, case) for s, w, _ in viols]


def run_cli_slice(arg):
    """export -> `naunet render --force` in the project directory: the [summary] the command
    writes must agree with the macros it rendered (fresh process per case)."""
    idx, entries = arg
    from ..harness.render import reset_globals, quiet, scratch
    from ..harness.cli import run_command
    import tomlkit

    reset_globals()
    label = "+".join(n for n, kw, _ in entries)
    case = {"species": [[n, kw] for n, kw, _ in entries], "cli": True}
    viols = []
    out = Path(tempfile.mkdtemp(dir=scratch()))
    try:
        with quiet():
            net = build(entries, "reaction")
            try:
                net.export("proj", prefix=out, overwrite=True)
            except Exception as e:
                return 0, []  # export problems are C18/C20's subject
        st, o, err, exc = run_command("render", "--force", out / "proj")
        if exc is not None:
            return 1, [(f"C09:cli-render-error:{type(exc).__name__}", f"{label}: render command raised {exc!r}", case)]
        toml = tomlkit.loads((out / "proj" / "naunet_config.toml").read_text())
        summ = toml["summary"]
        macs = parse_macro_lines((out / "proj" / "include" / "naunet_macros.h").read_text())
        spec = [(n, v) for n, v in macs if not n.startswith("IDX_ELEM_") and n != "IDX_TGAS"]
        order = [n[4:] for n, v in sorted(spec, key=lambda t: int(t[1]) if t[1].isdigit() else 0)]
        if list(summ["list_of_species_alias"]) != order or int(summ["num_of_species"]) != len(spec):
            viols.append((f"C09:summary-render", f"{label}: render summary {list(summ['list_of_species_alias'])} vs macros {order}", case))
        if len(summ["list_of_species"]) != len(spec):
            viols.append((f"C09:summary-render-count", f"{label}: {len(summ['list_of_species'])} species listed, {len(spec)} macros", case))
        return 1, viols
    finally:
        shutil.rmtree(out, ignore_errors=True)


def thermal_slot_case(ncool):
    """the temperature is a slot like the species: the python constants module must say so exactly when the C macros
    do (NEQUATIONS = NSPECIES + 1, IDX_TGAS = NSPECIES), for no / one / two / three thermal processes and every back-end"""
    from ..harness.render import render, reset_globals, quiet

    reset_globals()
    from naunet.network import Network
    from naunet.reactions.reaction import Reaction
    from naunet.reactiontype import ReactionType

    cooling = ["CIC_HI", "RC_HII", "CEC_HI"][:ncool]
    viols = []
    n = 0
    with quiet():
        reacs = [Reaction(list(r), list(p_), -1.0, -1.0, 1e-10, 0.0, 0.0, ReactionType.GAS_TWOBODY, i + 1) for i, (r, p_) in enumerate(oc.PRIMORDIAL)]
        net = Network(reacs, cooling=cooling)
        for b in ("dense", "sparse", "rosenbrock4"):
            files = render(net, b, ["include/naunet_macros.h.j2", "python/pynaunet_model/constants.py.j2"])
            from ..ctext.stmts import read_macros

            mac = read_macros(files["include/naunet_macros.h"])
            ca = dict(py_assignments(files["python/pynaunet_model/constants.py"]))
            n += 1
            c_thermal = mac.value("NEQUATIONS") - mac.value("NSPECIES")
            tg = mac.value("IDX_TGAS") if "IDX_TGAS" in mac.text else None
            if c_thermal not in (0, 1) or (c_thermal == 1) != bool(cooling) or (c_thermal == 1 and tg != mac.value("NSPECIES")) or bool(ca.get("HAS_THERMAL")) != bool(c_thermal) or ca.get("NSPEC") != mac.value("NSPECIES"):
                viols.append(("C09:thermal-slot", f"{ncool} cooling process(es) [{b}]: C macros NEQUATIONS - NSPECIES = {c_thermal}, IDX_TGAS = {tg}; constants.py HAS_THERMAL = {ca.get('HAS_THERMAL')}, NSPEC = {ca.get('NSPEC')}", {"thermal_slot": ncool}))
                break
    return n, viols


def run(ctx):
    import multiprocessing as mp

    work = [(i, s, ctx.tier) for i, s in enumerate(subsets(ctx.tier))]
    uwork = [(i, s, ctx.tier, "ucl") for i, s in enumerate(ucl_subsets(ctx.tier))]
    nart = 0
    for n, viols in ctx.pmap(run_case, work + uwork, chunksize=8):
        nart += n
        ctx.absorb(viols)
    for n, viols in ctx.pmap(thermal_slot_case, [0, 1, 2, 3]):
        nart += n
        ctx.absorb(viols)
    # CLI slice: gas-only sets (export of ice species needs binding energies) in fresh processes
    cli = [(i, s) for i, s, _ in work if all(not n.startswith(("#", "G")) for n, _, _ in s)][:: (9 if ctx.tier == "quick" else 4)]
    ncli = 0
    with mp.get_context("fork").Pool(ctx.workers, maxtasksperchild=1) as pool:
        for n, viols in pool.imap_unordered(guarded(run_cli_slice), cli):
            ncli += n
            ctx.absorb(viols)
    ctx.assumptions += [
        "species identity of the reference: spellings e-/E are one species, '#H' and 'GH'(surface_prefix G) are one species, every other pool name is its own species",
        "upper-case convention (elements E,H,HE,C,O; replacement HE->He, E->e as in the bundled cloud example): HE/HE+/HE++/HEH+/#HE are helium species, E- is the electron; expected aliases follow the replaced names",
        "identifier legality: ^[A-Za-z_][A-Za-z0-9_]*$ and not a Python keyword",
        "Enzo patch (naunet_enzo.h, Grid_NaunetWrapper.C, Grid_IdentifyNaunetSpeciesFields.C, typedefs.h, hydro_rk/Grid_UpdateElectronDensity.C): every per-species table lists each species once in slot order paired with its own field (Grackle's aliases De, HI, HII ... for the 12 Grackle species), new field types = species Enzo does not define, numbered from 104; count, order, distinctness and legality of the A_<alias> table and the ENZO_NSPECIES count (network U Grackle species by identity, minus the electron) are judged; grackle aliases intentionally differ from the macro aliases",
    ]
    return {
        "evaluations": nart + ncli,
        "distinct_nontrivial": len(work),
        "rule": "all subsets (size 1..4, quick 1..3) of a pool covering the naming conventions and of a second pool under the upper-case element list with replacement, each entered through a reaction and through required_species, x 4 back-ends; artefacts: naunet_macros.h, constant_indexes.py, constants.py, NetworkConfiguration summary, naunet_enzo.h (slice), render-command summary (slice, fresh processes); distinct = species set",
        "samples": ["+".join(n for n, _, _ in s) for _, s, _ in work[:: max(1, len(work) // 6)]],
        "species_sets": len(work),
        "cli_render_runs": ncli,
        "artefacts_checked": nart,
        "exhaustive": True,
    }


def replay(ctx, case):
    if "thermal_slot" in case:
        ctx.absorb(thermal_slot_case(case["thermal_slot"])[1])
        return
    entries = []
    pool = UCL_POOL if case.get("ucl") else POOL
    for n, kw in case["species"]:
        ident = next(i for nn, k, i in pool if nn == n and k == kw)
        entries.append((n, kw, ident))
    if case.get("cli"):
        n, viols = run_cli_slice((0, entries))
    elif case.get("ucl"):
        n, viols = run_case((0, entries, "thorough", "ucl"))
    else:
        n, viols = run_case((0, entries, "thorough"))
    ctx.absorb(viols)
