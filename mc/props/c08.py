"""C08 - species names are decomposed into the right elements, charge and phase.
Names are *printed from* a structure; the structure is the oracle."""
from __future__ import annotations

import itertools
import multiprocessing as mp
from collections import Counter

from ..core.runner import HarnessError, guarded

LEVEL = "exploration"

# mass numbers (protons + neutrons of the most abundant isotope), written down independently
MASSNUM = {"H": 1, "D": 2, "He": 4, "C": 12, "N": 14, "O": 16, "F": 19, "Na": 23, "Mg": 24, "Al": 27, "Si": 28, "P": 31, "S": 32,
           "Cl": 35, "Ar": 40, "Ca": 40, "Fe": 56, "Ni": 59}
CHEM = list(MASSNUM)

CONFIGS = {
    "default": {"elements": None, "pseudo": None, "replacement": {}, "kwargs": {}, "symbols": CHEM,
                "pseudo_syms": ["CR", "CRP", "XRAY", "Photon", "PHOTON", "CRPHOT", "X", "M", "p", "o", "m", "c-", "l-", "*", "g"], "extra_elems": ["e", "E"]},
    "prefixG": {"elements": None, "pseudo": None, "replacement": {}, "kwargs": {"surface_prefix": "G"}, "symbols": ["H", "D", "He", "C", "N", "O", "Si", "S", "Cl"],
                "pseudo_syms": ["CR", "CRP", "XRAY", "Photon", "PHOTON", "CRPHOT", "X", "M", "p", "o", "m", "c-", "l-", "*", "g"], "extra_elems": ["e", "E"]},
    "uclchem": {"elements": ["E", "H", "D", "HE", "C", "N", "O", "MG", "SI", "S", "CL"], "pseudo": ["CR", "CRP", "PHOTON", "CRPHOT"],
                "replacement": {"E": "e", "HE": "He", "MG": "Mg", "SI": "Si", "CL": "Cl"}, "kwargs": {},
                "symbols": ["H", "D", "HE", "C", "N", "O", "MG", "SI", "S", "CL"], "pseudo_syms": ["CR", "CRP", "PHOTON", "CRPHOT"], "extra_elems": ["E"]},
    "grainsym": {"elements": None, "pseudo": None, "replacement": {}, "kwargs": {"grain_symbol": "DUST", "surface_prefix": "#"}, "symbols": ["H", "C", "O"],
                 "pseudo_syms": ["CR", "CRP", "XRAY", "Photon", "PHOTON", "CRPHOT", "X", "M", "p", "o", "m", "c-", "l-", "*", "g"], "extra_elems": ["e", "E"]},
}


def print_name(st):
    """structure -> name.  st = (prefix, group, label, ((sym,count),...), charge)"""
    prefix, group, label, comp, charge = st
    s = prefix + (str(group) if group else "")
    s += label
    for sym, n in comp:
        s += sym + (str(n) if n != 1 else "")
    s += "+" * charge if charge > 0 else "-" * (-charge)
    return s


def tokenisations(body, symbols, limit=50):
    """all ways to read `body` as (symbol digits*)* over `symbols`"""
    out = []

    def rec(pos, acc):
        if len(out) >= limit:
            return
        if pos == len(body):
            out.append(tuple(acc))
            return
        for s in symbols:
            if body.startswith(s, pos):
                q = pos + len(s)
                e = q
                while e < len(body) and body[e].isdigit():
                    e += 1
                rec(e, acc + [(s, body[q:e])])

    rec(0, [])
    return out


def structures(cfgname, tier):
    cfg = CONFIGS[cfgname]
    syms = cfg["symbols"]
    pre = cfg["kwargs"].get("surface_prefix", "#")
    if tier == "quick":
        counts = [1, 2, 12]
        labels = ["", "o"]
        prefixes = [("", 0), (pre, 0), (pre, 12)]
        charges = [0, 1, -1]
    else:
        counts = [1, 2, 3, 10, 12]
        labels = ["", "o", "p", "m"]
        prefixes = [("", 0), (pre, 0), (pre, 2), (pre, 10), (pre, 12)]
        charges = [0, 1, 2, 3, -1, -2]
    if cfgname == "uclchem":
        labels = [""]  # that configuration declares no ortho/para labels
    # singles
    for a in syms:
        for na in counts:
            for (p, g), lab, ch in itertools.product(prefixes, labels, charges):
                yield (p, g, lab, ((a, na),), ch)
    # all ordered pairs (every adjacent symbol pair occurs)
    for a, b in itertools.product(syms, repeat=2):
        for na, nb in itertools.product(counts, repeat=2):
            for (p, g), lab, ch in itertools.product(prefixes, labels, charges):
                yield (p, g, lab, ((a, na), (b, nb)), ch)
    # a family of triples
    tri = [s for s in syms if s in ("H", "He", "HE", "C", "Cl", "CL", "S", "Si", "SI", "O")]
    for a, b, c in itertools.product(tri, repeat=3):
        for na, nb, nc in itertools.product([1, 2], repeat=3):
            for ch in (0, 1):
                yield ("", 0, "", ((a, na), (b, nb), (c, nc)), ch)


def expected(st, cfg):
    prefix, group, label, comp, charge = st
    rep = cfg["replacement"]
    ec = Counter()
    for sym, n in comp:
        ec[rep.get(sym, sym)] += n
    name = print_name(st)
    newname = prefix + (str(group) if group else "") + label
    for sym, n in comp:
        newname += rep.get(sym, sym) + (str(n) if n != 1 else "")
    newname += "+" * charge if charge > 0 else "-" * (-charge)
    body = label + "".join(rep.get(s, s) + (str(n) if n != 1 else "") for s, n in comp)
    chs = "+" * charge if charge > 0 else "-" * (-charge)
    exp = {
        "name": newname if rep else name,
        "element_count": dict(ec),
        "charge": charge,
        "is_surface": bool(prefix),
        "surface_group": (group if prefix else None),
        "gasname": body + chs,
        "basename": body,
        "massnumber": float(sum(MASSNUM[k] * v for k, v in ec.items())),
        "is_atom": (len(ec) == 1 and sum(ec.values()) == 1 and charge == 0 and not prefix),
        "is_grain": False,
    }
    return exp


def observe(sp):
    return {
        "name": sp.name,
        "element_count": dict(sp.element_count),
        "charge": sp.charge,
        "is_surface": sp.is_surface,
        "surface_group": sp.surface_group,
        "gasname": sp.gasname,
        "basename": sp.basename,
        "massnumber": float(sp.massnumber),
        "is_atom": sp.is_atom,
        "is_grain": sp.is_grain,
    }


def run_config(arg):
    cfgname, tier, part, nparts = arg
    from ..harness.render import reset_globals, quiet

    reset_globals()
    from naunet.species import Species

    cfg = CONFIGS[cfgname]
    if cfg["elements"] is not None:
        Species.set_known_elements(list(cfg["elements"]))
        Species.set_known_pseudoelements(list(cfg["pseudo"]))
    if cfg["replacement"]:
        Species._replacement.update(cfg["replacement"])
    kw = cfg["kwargs"]
    pre = kw.get("surface_prefix", "#")
    allsyms = cfg["symbols"] + cfg["extra_elems"] + cfg["pseudo_syms"] + [pre, kw.get("grain_symbol", "GRAIN")]
    viols = []
    n = judged = skipped = 0
    seen = set()
    with quiet():
        for i, st in enumerate(structures(cfgname, tier)):
            if i % nparts != part:
                continue
            name = print_name(st)
            if name in seen:
                continue
            seen.add(name)
            n += 1
            # is the intended reading the unique / unique-fewest-token reading?
            body = name.rstrip("+").rstrip("-") if st[4] else name
            intended = tuple(
                ([(st[0], str(st[1]) if st[1] else "")] if st[0] else []) + ([(st[2], "")] if st[2] else []) + [(s, str(c) if c != 1 else "") for s, c in st[3]]
            )
            reads = tokenisations(body, allsyms)
            if intended not in reads:
                raise HarnessError(f"own tokeniser cannot read {name} as intended {intended}: {reads[:3]}")
            if len(reads) > 1:
                m = min(len(r) for r in reads)
                best = [r for r in reads if len(r) == m]
                if len(best) != 1 or best[0] != intended:
                    skipped += 1
                    continue
            exp = expected(st, cfg)
            try:
                sp = Species(name, **kw)
                got = observe(sp)
            except Exception as e:
                viols.append((f"C08:raises:{cfgname}:{type(e).__name__}", f"[{cfgname}] Species({name!r}) raises {e!r}", {"config": cfgname, "name": name, "structure": list(map(str, st))}))
                continue
            judged += 1
            bad = [k for k in exp if got[k] != exp[k]]
            if bad:
                adj = "|".join(s for s, _ in st[3])
                viols.append(
                    (
                        f"C08:{cfgname}:{'+'.join(bad)}",
                        f"[{cfgname}] Species({name!r}) built from {st}: expected { {k: exp[k] for k in bad} } got { {k: got[k] for k in bad} }",
                        {"config": cfgname, "name": name, "structure": list(map(str, st))},
                    )
                )
    return cfgname, n, judged, skipped, viols


def run_special(arg):
    """grain symbols with groups, electrons, rejection of foreign characters"""
    cfgname, tier = arg
    from ..harness.render import reset_globals, quiet

    reset_globals()
    from naunet.species import Species

    cfg = CONFIGS[cfgname]
    if cfg["elements"] is not None:
        Species.set_known_elements(list(cfg["elements"]))
        Species.set_known_pseudoelements(list(cfg["pseudo"]))
    if cfg["replacement"]:
        Species._replacement.update(cfg["replacement"])
    kw = cfg["kwargs"]
    gs = kw.get("grain_symbol", "GRAIN")
    pre_ = kw.get("surface_prefix", "#")
    viols = []
    n = 0
    with quiet():
        # grains
        for grp in ("", "0", "1", "12"):
            for ch in (0, 1, -1, -2):
                name = gs + grp + ("+" * ch if ch > 0 else "-" * (-ch))
                n += 1
                try:
                    sp = Species(name, **kw)
                    got = (sp.is_grain, sp.grain_group, sp.charge, dict(sp.element_count), sp.is_surface)
                except Exception as e:
                    viols.append((f"C08:grain-raises:{cfgname}", f"Species({name!r}) raises {e!r}", {"config": cfgname, "name": name}))
                    continue
                exp = (True, int(grp) if grp else 0, ch, {gs: 1}, False)
                if got != exp:
                    viols.append((f"C08:grain:{cfgname}", f"Species({name!r}): (is_grain, group, charge, count, surface) = {got}, expected {exp}", {"config": cfgname, "name": name}))
        # electrons
        for name in (["e-", "E"] if cfgname != "uclchem" else ["E-"]):
            n += 1
            try:
                sp = Species(name, **kw)
                got = (sp.is_electron, sp.charge, sp.is_atom, float(sp.massnumber))
            except Exception as e:
                viols.append((f"C08:electron-raises:{cfgname}", f"Species({name!r}) raises {e!r}", {"config": cfgname, "name": name}))
                continue
            if got != (True, -1, False, 0.0):
                viols.append((f"C08:electron:{cfgname}", f"Species({name!r}): (is_electron, charge, is_atom, A) = {got}", {"config": cfgname, "name": name}))
        # pseudo-element affixes of the default list: excited '*', cyclic 'c-', linear 'l-'
        if cfg["elements"] is None:
            for name, ec, A in (("H2*", {"H": 2}, 2.0), ("c-C3H2", {"C": 3, "H": 2}, 38.0), ("l-C3H", {"C": 3, "H": 1}, 37.0), ("oH2*", {"H": 2}, 2.0),
                                 # the marker INSIDE a name, followed by one- and two-letter symbols and a charge
                                 ("H2*O", {"H": 2, "O": 1}, 18.0), ("C*H2", {"C": 1, "H": 2}, 14.0), ("C*O2", {"C": 1, "O": 2}, 44.0), ("H*He", {"H": 1, "He": 1}, 5.0), ("C*H*O", {"C": 1, "H": 1, "O": 1}, 29.0)):
                n += 1
                try:
                    sp = Species(name, **kw)
                    got = (dict(sp.element_count), float(sp.massnumber), sp.charge)
                except Exception as e:
                    viols.append((f"C08:affix-raises:{name}", f"Species({name!r}) raises {e!r}", {"config": cfgname, "name": name}))
                    continue
                if got != (ec, A, 0):
                    viols.append((f"C08:affix:{name}", f"[{cfgname}] Species({name!r}): (element_count, A, charge) = {got}, expected {(ec, A, 0)}", {"config": cfgname, "name": name}))
        # rejection: one foreign character inserted at every position of a valid 2-token name
        syms = cfg["symbols"]
        foreign = ["x", "z", "q", "?", ".", "!", "_", " "]
        bases = [a + b for a, b in itertools.product(syms[:6], repeat=2)] + [a + "2" + b for a, b in itertools.product(syms[:4], repeat=2)]
        bases += [a + "12" + b for a, b in itertools.product(syms[:3], repeat=2)] + [a + "10" for a in syms[:4]]  # a foreign character inside a two-digit count
        for base in bases:
            for ch in foreign:
                for pos in range(len(base) + 1):
                    name = base[:pos] + ch + base[pos:]
                    n += 1
                    try:
                        sp = Species(name, **kw)
                    except Exception:
                        continue
                    viols.append((f"C08:foreign-accepted:{cfgname}:{ch}:{'start' if pos == 0 else 'end' if pos == len(base) else 'middle'}", f"[{cfgname}] Species({name!r}) is accepted (element_count={dict(sp.element_count)}) although {ch!r} belongs to no symbol", {"config": cfgname, "name": name}))
        # a count belongs to the symbol in front of it: a name that *starts* with digits (isotope notation "13CO", a
        # stoichiometric "2H") has a count that belongs to nothing
        for base in bases:
            for d in ("1", "2", "13"):
                for pre in ("",):  # not after the surface prefix: there a number is the surface group
                    name = pre + d + base
                    n += 1
                    try:
                        sp = Species(name, **kw)
                    except Exception:
                        continue
                    viols.append((f"C08:leading-count-accepted:{cfgname}:{'surface' if pre else 'gas'}", f"[{cfgname}] Species({name!r}) is accepted (element_count={dict(sp.element_count)}) although the leading {d!r} is the count of no symbol", {"config": cfgname, "name": name}))
        # the same molecule on two surface groups (grain populations) is two species
        for a in syms[:6]:
            for g1, g2 in (("", "2"), ("2", "10"), ("1", "12")):
                n += 1
                try:
                    s1, s2 = Species(pre_ + g1 + a, **kw), Species(pre_ + g2 + a, **kw)
                except Exception:
                    continue
                if s1 == s2 or not (s1 != s2):
                    viols.append((f"C08:surface-groups-equal:{cfgname}", f"[{cfgname}] Species({pre_ + g1 + a!r}) == Species({pre_ + g2 + a!r}) although their surface groups are {s1._surface_group} and {s2._surface_group}", {"config": cfgname, "name": pre_ + g1 + a}))
                    break
        # a charge sign is only legal at the end of the name: sign followed by a count must not be read as a count
        for a in syms[:6]:
            for sign in ("+", "-"):
                for tail in ("2", "12", "2" + syms[0], "1" + syms[1] + "2"):
                    name = a + sign + tail
                    n += 1
                    try:
                        sp = Species(name, **kw)
                    except Exception:
                        continue
                    # accepted: then it must at least not have swallowed the sign into a count
                    if sp.charge == 0:
                        viols.append((f"C08:sign-inside-name-misread:{cfgname}:{sign}", f"[{cfgname}] Species({name!r}) is read as element_count={dict(sp.element_count)} charge={sp.charge}: a charge sign in front of a count was taken for part of the count", {"config": cfgname, "name": name}))
        # symbols added through add_known_elements: a new symbol, and a symbol promoted from the marker list
        # (documented: "move to element list") - afterwards both are configured elements like any other
        if cfgname == "default":
            Species.reset()
            Species.set_known_elements(list(Species.default_elements))
            Species.set_known_pseudoelements(list(Species.default_pseudoelements))
            Species.add_known_elements(["Zz", "M", "X"])
            for name, ec, q in (("M", {"M": 1}, 0), ("M+", {"M": 1}, 1), ("MH", {"M": 1, "H": 1}, 0), ("MgM+", {"Mg": 1, "M": 1}, 1), ("ZzH2", {"Zz": 1, "H": 2}, 0),
                                ("XH-", {"X": 1, "H": 1}, -1), ("H2", {"H": 2}, 0), ("oH2", {"H": 2}, 0)):
                n += 1
                try:
                    sp = Species(name)
                    got = (dict(sp.element_count), sp.charge)
                except Exception as e:
                    viols.append((f"C08:added-element:raises", f"after add_known_elements(['Zz','M','X']): Species({name!r}) raises {e!r}", {"config": cfgname, "name": name}))
                    continue
                if got != (ec, q):
                    viols.append((f"C08:added-element:{'promoted-marker' if 'M' in ec or 'X' in ec else 'new-symbol'}", f"after add_known_elements(['Zz','M','X']): Species({name!r}) has (element_count, charge) = {got}, expected {(ec, q)}", {"config": cfgname, "name": name}))
            Species.reset()
            # ... and the other direction: a symbol declared a label through add_known_pseudoelements (a new one, and
            # one demoted from the element list - documented: "move to pseudo element list") no longer counts as atoms
            Species.set_known_elements(list(Species.default_elements))
            Species.set_known_pseudoelements(list(Species.default_pseudoelements))
            Species.add_known_pseudoelements(["Qq", "P", "D"])
            for name, ec, q, atom in (("PH2", {"H": 2}, 0, False), ("PH", {"H": 1}, 0, True), ("HD", {"H": 1}, 0, True), ("QqCO+", {"C": 1, "O": 1}, 1, False),
                                      ("H2", {"H": 2}, 0, False), ("pH2", {"H": 2}, 0, False), ("He", {"He": 1}, 0, True)):
                n += 1
                try:
                    sp = Species(name)
                    got = (dict(sp.element_count), sp.charge, bool(sp.is_atom))
                except Exception as e:
                    viols.append((f"C08:added-label:raises", f"after add_known_pseudoelements(['Qq','P','D']): Species({name!r}) raises {e!r}", {"config": cfgname, "name": name}))
                    continue
                if got != (ec, q, atom):
                    viols.append((f"C08:added-label:{'demoted-element' if name in ('PH2', 'PH', 'HD') else 'new-label'}", f"after add_known_pseudoelements(['Qq','P','D']): Species({name!r}) has (element_count, charge, is_atom) = {got}, expected {(ec, q, atom)}", {"config": cfgname, "name": name}))
            Species.reset()
            # a configured symbol that CONTAINS an earlier-listed multi-letter symbol (an isotope written as its own
            # element: He3 next to He, listed after it): longest symbol wins, whatever the order of the list
            for order in (["e", "H", "He", "He3", "C", "O"], ["e", "H", "He3", "He", "C", "O"]):
                Species.set_known_elements(list(order))
                Species.set_known_pseudoelements(["CR"])
                for name, ec, q in (("He3", {"He3": 1}, 0), ("He3+", {"He3": 1}, 1), ("He3H+", {"He3": 1, "H": 1}, 1), ("He", {"He": 1}, 0), ("HeH+", {"He": 1, "H": 1}, 1), ("He2", {"He": 2}, 0)):
                    n += 1
                    try:
                        sp = Species(name)
                        got = (dict(sp.element_count), sp.charge)
                    except Exception as e:
                        viols.append((f"C08:contained-symbol:raises", f"elements {order}: Species({name!r}) raises {e!r}", {"config": cfgname, "name": name}))
                        continue
                    if got != (ec, q):
                        viols.append((f"C08:contained-symbol", f"elements {order}: Species({name!r}) has (element_count, charge) = {got}, expected {(ec, q)} (longest configured symbol wins)", {"config": cfgname, "name": name}))
                Species.reset()
    return cfgname, n, viols


PARTIAL = {
    # only an element list is configured (the bundled minimal example does this): the marker list stays empty and
    # no default symbol becomes known
    "elements-only": (["H", "C"], []),
    "elements-only-upper": (["E", "H", "HE", "C", "O"], []),
    "elements-with-one-marker": (["H", "C"], ["CR"]),
}


def run_partial(arg):
    """configurations in which one of the two global lists is empty: names over the configured symbols are read as
    usual, names that need a symbol of the built-in default lists (He, Si, ortho/para labels ...) are refused, and
    the configured lists are what Species reports afterwards.  Set through the Species class and through Network."""
    name, via = arg
    from ..harness.render import reset_globals, quiet

    reset_globals()
    from naunet.species import Species

    elements, pseudo = PARTIAL[name]
    viols = []
    n = 0
    with quiet():
        if via == "species":
            Species.set_known_elements(list(elements))
            Species.set_known_pseudoelements(list(pseudo))
        else:
            from naunet.network import Network

            Network(elements=list(elements), pseudo_elements=list(pseudo))
        he = "HE" if "HE" in elements else None
        good = [("H", {"H": 1}, 0), ("H2", {"H": 2}, 0), ("CH", {"C": 1, "H": 1}, 0), ("C2H2", {"C": 2, "H": 2}, 0), ("CH+", {"C": 1, "H": 1}, 1), ("H-", {"H": 1}, -1), ("#CH", {"C": 1, "H": 1}, 0)]
        if he:
            good += [("HE", {"HE": 1}, 0), ("HE+", {"HE": 1}, 1)]
        for nm, ec, q in good:
            n += 1
            try:
                sp = Species(nm)
                got = (dict(sp.element_count), sp.charge)
            except Exception as e:
                viols.append((f"C08:partial-lists:{name}:raises", f"[{name} via {via}] Species({nm!r}) raises {e!r}", {"partial": name, "via": via}))
                continue
            if got != (ec, q):
                viols.append((f"C08:partial-lists:{name}:misread", f"[{name} via {via}] Species({nm!r}): (element_count, charge) = {got}, expected {(ec, q)}", {"partial": name, "via": via}))
        bad = ["He", "Si", "oH2", "pH2", "HD", "C2N", "Hg", "CO", "Mg", "H2*", "c-C3H2", "NH3"]
        if "O" in elements:
            bad = [b for b in bad if b != "CO"]
        for nm in bad:
            n += 1
            try:
                sp = Species(nm)
            except Exception:
                continue
            viols.append((f"C08:partial-lists:{name}:unconfigured-symbol-accepted", f"[{name} via {via}] Species({nm!r}) is accepted (element_count={dict(sp.element_count)}) although only {elements} + {pseudo} are configured", {"partial": name, "via": via}))
        n += 1
        if list(Species.known_elements()) != list(elements) or list(Species.known_pseudoelements()) != list(pseudo):
            viols.append((f"C08:partial-lists:{name}:lists-changed", f"[{name} via {via}] after use the lists are {Species.known_elements()} / {Species.known_pseudoelements()}, configured {elements} / {pseudo}", {"partial": name, "via": via}))
    return n, viols


def run(ctx):
    nparts = 8
    work = [(c, ctx.tier, p, nparts) for c in CONFIGS for p in range(nparts)]
    tot = judged = skipped = 0
    per = Counter()
    # one fresh process per (configuration, slice): maxtasksperchild=1
    ctxmp = mp.get_context("fork")
    with ctxmp.Pool(ctx.workers, maxtasksperchild=1) as pool:
        for cfgname, n, j, s, viols in pool.imap_unordered(guarded(run_config), work):
            tot += n
            judged += j
            skipped += s
            per[cfgname] += j
            ctx.absorb(viols)
        for cfgname, n, viols in pool.imap_unordered(guarded(run_special), [(c, ctx.tier) for c in CONFIGS]):
            tot += n
            judged += n
            ctx.absorb(viols)
        for n, viols in pool.imap_unordered(guarded(run_partial), [(nm, via) for nm in PARTIAL for via in ("species", "network")]):
            tot += n
            judged += n
            ctx.absorb(viols)
    ctx.assumptions += [
        "the oracle is the structure a name was printed from; only names whose intended tokenisation is the unique, or the unique fewest-token, reading over the configured symbols are judged (others counted as skipped)",
        "mass numbers: own table of the most abundant isotopes (H1 D2 He4 C12 N14 O16 F19 Na23 Mg24 Al27 Si28 P31 S32 Cl35 Ar40 Ca40 Fe56 Ni59)",
        "each configuration of the global symbol tables runs in its own fresh processes",
    ]
    return {
        "evaluations": tot,
        "distinct_nontrivial": judged,
        "rule": "names printed from (prefix,group,label,[(symbol,count)],charge): all singles and ordered pairs of the configured chemical symbols x counts x labels x prefixes x charges, a family of triples, grain symbols with groups, electrons, and foreign-character insertions that must be rejected; 4 configurations of the global tables; distinct by name, judged = non-skipped",
        "samples": [print_name(s) for s in itertools.islice(structures("default", ctx.tier), 1000, 1400, 57)],
        "judged_per_configuration": dict(per),
        "skipped_ambiguous": skipped,
        "exhaustive": True,
    }


def replay(ctx, case):
    if "partial" in case:
        ctx.absorb(run_partial((case["partial"], case["via"]))[1])
        return
    from ..harness.render import reset_globals, quiet

    cfgname = case["config"]
    for p in range(1):
        for res in [run_special((cfgname, "thorough"))]:
            ctx.absorb([v for v in res[2] if v[2].get("name") == case["name"]])
    c, n, j, s, viols = run_config((cfgname, "thorough", 0, 1))
    ctx.absorb([v for v in viols if v[2].get("name") == case["name"]])
