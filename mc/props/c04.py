"""C04 - balanced networks give element- and charge-conserving generated dynamics."""
from __future__ import annotations

import itertools
import re
from collections import Counter
from fractions import Fraction

from ..core.runner import HarnessError
from ..ctext import poly as P
from ..ctext.cexpr import parse_expr
from ..ctext.odetext import NotC, read_ode
from ..ctext.stmts import classify, find_function_body, preprocess, split_statements, Macros
from . import odecommon as oc

LEVEL = "exploration"

# species are *built from* (composition, charge); the name is printed from it
SPECIES = {
    "H": ({"H": 1}, 0),
    "H+": ({"H": 1}, 1),
    "H-": ({"H": 1}, -1),
    "e-": ({}, -1),
    "E": ({}, -1),
    "H2": ({"H": 2}, 0),
    "H2+": ({"H": 2}, 1),
    "H3+": ({"H": 3}, 1),
    "D": ({"D": 1}, 0),
    "D+": ({"D": 1}, 1),
    "HD": ({"H": 1, "D": 1}, 0),
    "oH2": ({"H": 2}, 0),
    "pH2": ({"H": 2}, 0),
    "C": ({"C": 1}, 0),
    "C+": ({"C": 1}, 1),
    "O": ({"O": 1}, 0),
    "CO": ({"C": 1, "O": 1}, 0),
    "HCO+": ({"H": 1, "C": 1, "O": 1}, 1),
    "#H": ({"H": 1}, 0),
    "#H2": ({"H": 2}, 0),
    "#CO": ({"C": 1, "O": 1}, 0),
    # names that differ from a spin-labelled species only by case (para-H2 / PH2, ortho-H2 / OH2)
    "P": ({"P": 1}, 0),
    "PH2": ({"P": 1, "H": 2}, 0),
    "OH2": ({"O": 1, "H": 2}, 0),
    # names that repeat an element symbol in separate tokens
    "CH3OH": ({"C": 1, "H": 4, "O": 1}, 0),
    "HCOOH": ({"C": 1, "H": 2, "O": 2}, 0),
    "#CH3OH": ({"C": 1, "H": 4, "O": 1}, 0),
    # more than nine (and more than ten) atoms of one element in a molecule
    "C6H5": ({"C": 6, "H": 5}, 0),
    "C12H10": ({"C": 12, "H": 10}, 0),
    "C24H12": ({"C": 24, "H": 12}, 0),
    "C11": ({"C": 11}, 0),
    "C12": ({"C": 12}, 0),
    "HC11N": ({"H": 1, "C": 11, "N": 1}, 0),
    "CN": ({"C": 1, "N": 1}, 0),
    # dust grains carry charge like any other species (recombination / electron capture on grains)
    "GRAIN0": ({"GRAIN": 1}, 0),
    "GRAIN-": ({"GRAIN": 1}, -1),
    "GRAIN+": ({"GRAIN": 1}, 1),
}
QUICK_SPECIES = ["H", "H+", "H-", "e-", "E", "H2", "H2+", "H3+", "oH2", "#H", "#H2", "D", "HD"]


def comp(names):
    el = Counter()
    q = 0
    for n in names:
        c, ch = SPECIES[n]
        el.update(c)
        q += ch
    return {k: v for k, v in el.items() if v}, q


def balanced_reactions(alphabet, rmax=3, pmax=3):
    """every (reactant multiset, product multiset) that balances all elements and charge;
    trivial r == p is dropped; a reaction never mixes the two electron spellings"""
    by = {}
    for n in range(1, max(rmax, pmax) + 1):
        for ms in itertools.combinations_with_replacement(alphabet, n):
            if "e-" in ms and "E" in ms:
                continue
            el, q = comp(ms)
            by.setdefault((tuple(sorted(el.items())), q), []).append(ms)
    out = []
    for key, lst in by.items():
        for r in lst:
            if len(r) > rmax:
                continue
            for p in lst:
                if len(p) > pmax or r == p:
                    continue
                if ("e-" in r and "E" in p) or ("E" in r and "e-" in p):
                    continue
                out.append((list(r), list(p)))
    out.sort(key=lambda rp: (len(rp[0]) + len(rp[1]), rp))
    return out


def cases(tier):
    if tier == "quick":
        singles = balanced_reactions(QUICK_SPECIES, 2, 3)
        pool = singles[::max(1, len(singles) // 24)][:24]
    else:
        singles = balanced_reactions([x for x in SPECIES if not x.startswith("GRAIN") and x not in ("CH3OH", "HCOOH", "#CH3OH", "P", "PH2", "OH2", "C6H5", "C12H10", "C24H12", "C11", "C12", "HC11N", "CN")], 3, 3)
        pool = singles[::max(1, len(singles) // 60)][:60]
    for r, p in singles:
        yield {"reactions": [[r, p]], "family": "single"}
    # pairs, in particular pairs that spell the electron differently and gas/ice pairs
    extra = [
        (["H", "e-"], ["H-"]),
        (["H-"], ["H", "E"]),
        (["H+", "E"], ["H"]),
        (["H"], ["#H"]),
        (["#H", "#H"], ["#H2"]),
        (["#H2"], ["H2"]),
        (["oH2"], ["pH2"]),
        (["H2", "e-"], ["H", "H-"]),
        (["PH2"], ["P", "pH2"]),
        (["OH2"], ["O", "oH2"]),
        (["CH3OH"], ["CO", "H2", "H2"]),
        (["HCOOH"], ["CO", "H2", "O"]),
        (["CH3OH"], ["#CH3OH"]),
        (["C6H5", "C6H5"], ["C12H10"]),
        (["C12H10", "C12H10"], ["C24H12", "H2", "H2", "H2", "H2"]),
        (["C11", "C"], ["C12"]),
        (["HC11N", "C"], ["H", "C11", "CN"]),
        (["e-", "GRAIN0"], ["GRAIN-"]),
        (["H+", "GRAIN-"], ["H", "GRAIN0"]),
        (["H+", "GRAIN0"], ["H", "GRAIN+"]),
        (["E", "GRAIN+"], ["GRAIN0"]),
    ]
    pool = pool + [(a, b) for a, b in extra]
    for a in pool:
        for b in pool:
            yield {"reactions": [[a[0], a[1]], [b[0], b[1]]], "family": "pair"}
    yield {"reactions": [[a, b] for a, b in extra], "family": "all-extra"}


def read_element_abund(files, macros):
    """GetElementAbund text -> {element slot: polynomial in y}"""
    src = files.get("src/naunet_physics.cpp")
    if src is None:
        return None
    txt = preprocess(src, macros, Macros())
    body = find_function_body(txt, r"\bGetElementAbund\s*\(")
    res = {}
    md = macros.as_dict()

    def walk(nodes):
        for n in nodes:
            if n[0] == "if":
                m = re.match(r"^\s*elemidx\s*==\s*(\w+)\s*$", n[1])
                if not m:
                    raise HarnessError(f"GetElementAbund: unknown condition {n[1]!r}")
                slot = macros.value(m.group(1))
                for st in n[2]:
                    if st[0] != "stmt":
                        raise HarnessError("GetElementAbund: nested block")
                    k = classify(st[1])
                    if k[0] == "return":
                        res[slot] = P.to_poly(parse_expr(k[1]), md)
                    else:
                        raise HarnessError(f"GetElementAbund: {st[1]!r}")
                if n[3]:
                    walk(n[3])
            elif n[0] == "stmt":
                k = classify(n[1])
                if k[0] in ("return", "call", "decl"):
                    continue
                raise HarnessError(f"GetElementAbund: {n[1]!r}")
            else:
                raise HarnessError(f"GetElementAbund: node {n[0]}")

    walk(split_statements(body))
    return res


def read_hnuclei(files, macros, ea):
    """GetHNuclei (the hydrogen total Renorm / SetReferenceAbund normalise by) -> polynomial in y, or None when the
    helper is the '#else return 0.0' branch (no IDX_ELEM_H)"""
    src = files.get("src/naunet_physics.cpp")
    if src is None or "IDX_ELEM_H" not in macros.text:
        return None
    txt = preprocess(src, macros, Macros())
    body = find_function_body(txt, r"\bGetHNuclei\s*\(")
    rets = []
    for n in split_statements(body):
        if n[0] != "stmt":
            raise HarnessError(f"GetHNuclei: node {n[0]}")
        k = classify(n[1])
        if k[0] == "return":
            rets.append(k[1])
        elif k[0] not in ("decl", "call"):
            raise HarnessError(f"GetHNuclei: {n[1]!r}")
    if len(rets) != 1:
        raise HarnessError(f"GetHNuclei: {len(rets)} return statements")
    m = re.fullmatch(r"\s*GetElementAbund\s*\(\s*y\s*,\s*(\w+)\s*\)\s*", rets[0])
    if m:
        return ea.get(macros.value(m.group(1)) if not m.group(1).isdigit() else int(m.group(1)))
    return P.to_poly(parse_expr(rets[0]), macros.as_dict())


def run_case(desc):
    from ..harness.render import render, reset_globals

    reset_globals()
    label = oc.case_label(desc)
    viols = []
    try:
        net = oc.build_network(desc)
    except Exception as e:
        return 0, [(f"C04:build-error:{type(e).__name__}", f"{e!r}", label)], 0
    areacs = oc.abstract_reactions(desc)
    species = oc.reference_species(desc, areacs)
    nchk = 0
    for b in ("dense", "rosenbrock4"):
        try:
            solver = oc.render.__module__ if False else None
            from ..harness.render import BACKENDS, ODE_TEMPLATES

            tm = list(ODE_TEMPLATES[BACKENDS[b][0]]) + (["src/naunet_physics.cpp.j2"] if b == "dense" else [])
            files = render(net, b, tm)
            ot = read_ode(files, b)
        except NotC as e:
            viols.append((f"C04:not-c:{b}", f"{e.stmt[:160]} ({e.why})", label))
            continue
        except HarnessError:
            raise
        except Exception as e:
            viols.append((f"C04:render-error:{b}:{type(e).__name__}", f"{e!r}", label))
            continue
        slots, problems = oc.slot_map(species, ot.macros)
        if problems:
            viols.append((f"C04:slots:{problems[0][0]}", f"species<->slot binding: {problems}", label))
            continue
        if len(slots) != ot.nspec:
            viols.append((f"C04:nspecies", f"NSPECIES={ot.nspec} but {len(slots)} chemical species in the network", label))
        elements = sorted({e for s in species for e in SPECIES[s if s != "e-" else "e-"][0]})
        for el in elements:
            tot = {}
            for s in species:
                n = SPECIES[s][0].get(el, 0)
                if n:
                    tot = P.add(tot, P.mul(P.const(n), ot.ydot.get(slots[s], {})))
            nchk += 1
            if tot:
                viols.append((f"C04:element:{b}", f"sum over species of n_{el} * ydot is {P.show(tot)} (not identically 0)", dict(label, backend=b)))
                break
        tot = {}
        for s in species:
            q = SPECIES[s][1]
            if q:
                tot = P.add(tot, P.mul(P.const(q), ot.ydot.get(slots[s], {})))
        nchk += 1
        if tot:
            viols.append((f"C04:charge:{b}", f"charge-weighted sum of ydot is {P.show(tot)}", dict(label, backend=b)))
        if b == "dense":
            ea = read_element_abund(files, ot.macros)
            # elements the generated library knows: those present as neutral gas atoms
            for el in elements:
                mac = f"IDX_ELEM_{el}"
                if mac not in ot.macros.text:
                    continue
                eslot = ot.macros.value(mac)
                exp = {}
                for s in species:
                    n = SPECIES[s][0].get(el, 0)
                    if n:
                        exp = P.add(exp, P.mul(P.const(n), P.sym(f"y:{slots[s]}")))
                got = ea.get(eslot)
                nchk += 1
                if got is None or got != exp:
                    viols.append((f"C04:GetElementAbund", f"element {el}: helper returns {P.show(got) if got is not None else None}, count-weighted sum is {P.show(exp)}", label))
                    break
                if el == "H":
                    # the hydrogen total has a helper of its own (the normalisation of Renorm / SetReferenceAbund)
                    hn = read_hnuclei(files, ot.macros, ea)
                    nchk += 1
                    if hn is None or hn != exp:
                        viols.append((f"C04:GetHNuclei", f"helper GetHNuclei returns {P.show(hn) if hn is not None else None}, the count-weighted hydrogen total is {P.show(exp)}", label))
                        break
    return 2, viols, nchk


def run(ctx):
    allc = list(cases(ctx.tier))
    seen = set()
    uniq = []
    for d in allc:
        key = repr(sorted(oc.case_label(d).items()))
        if key not in seen:
            seen.add(key)
            uniq.append(d)
    evals = nchk = 0
    for n, viols, k in ctx.pmap(run_case, uniq, chunksize=16):
        evals += n
        nchk += k
        ctx.absorb(viols)
    fam = Counter(d["family"] for d in uniq)
    ctx.assumptions += [
        "compositions and charges are those the species names were built from (table SPECIES), never obtained by parsing",
        "the weighted sums are decided as polynomial identities in k[i] and y[j] (all abundance vectors, all rate values)",
        "dense and rosenbrock4 are read here; sparse/cusparse RHS text is shown identical to dense by C03",
    ]
    return {
        "evaluations": evals,
        "distinct_nontrivial": len(uniq),
        "rule": "all balanced (reactant multiset <=3, product multiset <=3) reactions over the by-construction species table, every single one and every ordered pair from a pool incl. E/e- and gas/ice pairs; every case is non-trivial (a real reaction)",
        "samples": [oc.case_label(uniq[i]) for i in (0, len(uniq) // 2, len(uniq) - 1)],
        "networks": len(uniq),
        "families": dict(fam),
        "conservation_identities_checked": nchk,
        "exhaustive": True,
    }


def replay(ctx, case):
    case = dict(case)
    case.pop("backend", None)
    n, viols, _ = run_case(case)
    ctx.absorb(viols)
