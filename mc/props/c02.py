"""C02 - analytic Jacobian is the exact derivative of the emitted RHS."""
from __future__ import annotations

import itertools
import re

from ..core.runner import HarnessError
from ..ctext.odetext import NotC
from . import odecommon as oc

LEVEL = "exploration"


def modifier_cases(tier):
    """ODE-modifier shapes on a 3-species network: target x dependency lists of
    length 0..3 (with repeats) x factor x 1-2 terms"""
    base = [[["H", "H"], ["H2"]], [["H2", "e-"], ["H", "H", "e-"]]]
    sp = ["H", "H2", "e-"]
    # (the last two contain the text of the "0.0 + " seed every accumulated entry starts from)
    factors = ["f", "-2.0 * f", "a+b", "-a + b", "-(a) - b*c", "-(10.0 + 2.0*f)*1e-3", "100.0 + a"]
    deps = [()]
    for n in (1, 2, 3):
        deps += list(itertools.product(sp, repeat=n))
    if tier == "quick":
        targets = ["H"]
        facs = ["a+b", "-a + b", "-(10.0 + 2.0*f)*1e-3"]
    else:
        targets = sp
        facs = factors
    for tgt in targets:
        for d in deps:
            for f in facs:
                yield {
                    "reactions": base,
                    "ode_modifier": {tgt: {"factors": [f], "reactants": [list(d)]}},
                    "family": "MOD",
                }
    # two terms per target, two targets
    two = [("H",), ("H", "H2"), ("e-", "e-"), ("H", "H2", "e-")]
    for d1 in two:
        for d2 in two:
            yield {
                "reactions": base,
                "ode_modifier": {
                    "H2": {"factors": ["f1", "-f2"], "reactants": [list(d1), list(d2)]},
                    "H": {"factors": ["g"], "reactants": [list(d2)]},
                },
                "family": "MOD",
            }


def modifier_thermal_cases(tier):
    """ODE modifiers on networks that also carry the temperature equation (n_eqns = n_spec + 1):
    every target species x dependency lists of length 0..2"""
    base = [[["H", "e-"], ["H+", "e-", "e-"]], [["H+", "e-"], ["H"]]]
    sp = ["H", "e-", "H+"]
    deps = [()] + [(a,) for a in sp] + list(itertools.product(sp, repeat=2))
    cools = [["CIC_HI"]] if tier == "quick" else [["CIC_HI"], ["CIC_HI", "RC_HII"]]
    for cool in cools:
        for tgt in sp:
            for d in deps:
                yield {"reactions": base, "cooling": cool, "ode_modifier": {tgt: {"factors": ["0.25"], "reactants": [list(d)]}}, "family": "MOD+T"}
        yield {
            "reactions": base,
            "cooling": cool,
            "ode_modifier": {"H+": {"factors": ["f", "-g"], "reactants": [["H", "e-"], ["H+"]]}, "e-": {"factors": ["h"], "reactants": [["H"]]}},
            "family": "MOD+T",
        }


def modifier_new_entry_cases(tier):
    """ODE modifiers on a network of two blocks that no reaction couples (H/H2 and C/O/CO): a modifier whose
    dependency lies in the other block creates a Jacobian entry that exists *only* because of the modifier (new
    non-zero in the sparse layouts, new mark in the pattern file)"""
    base = [[["H", "H"], ["H2"]], [["C", "O"], ["CO"]]]
    sp = ["H", "H2", "C", "O", "CO"]
    for tgt in sp if tier != "quick" else ["H2", "C"]:
        for d in [(x,) for x in sp] + [("H", "CO"), ("CO", "CO"), ("H2", "O")]:
            yield {"reactions": base, "ode_modifier": {tgt: {"factors": ["-2.5e-3"], "reactants": [list(d)]}}, "family": "MOD-NEW"}
    for cool in ([["CIC_HI"]] if tier == "quick" else [["CIC_HI"], ["CIC_HI", "RC_HII"]]):
        yield {"reactions": base + [[["H", "e-"], ["H+", "e-", "e-"]]], "cooling": cool, "ode_modifier": {"CO": {"factors": ["0.5"], "reactants": [["H+"]]}, "H+": {"factors": ["f"], "reactants": [["C", "O"]]}}, "family": "MOD-NEW"}


def cases(tier):
    yield from oc.enum_examples(tier)  # slowest first
    yield from modifier_thermal_cases(tier)
    yield from modifier_new_entry_cases(tier)
    yield from oc.enum_special(tier)
    yield from oc.enum_S1(tier)
    yield from oc.enum_S2(tier)
    yield from oc.enum_S3(tier)
    yield from oc.enum_S4(tier)
    yield from modifier_cases(tier)


def mod_shape(desc):
    om = desc.get("ode_modifier")
    if not om:
        return ""
    ns = sorted({min(len(d), 2) for v in om.values() for d in v["reactants"]})
    return "ndeps=" + ",".join("2+" if n == 2 else str(n) for n in ns)


def run_case(desc):
    from ..harness.render import reset_globals

    reset_globals()
    viols = []
    ent = 0
    try:
        net = oc.build_network(desc)
    except Exception as e:
        return 0, [(f"C02:build-error:{type(e).__name__}", f"network construction raised {e!r}", oc.case_label(desc))], 0
    ms = mod_shape(desc)
    for b in oc.ALL_BACKENDS:
        try:
            files, ot, _ = oc.render_and_read(desc, b, net)
        except NotC as e:
            from ..harness.cxx import confirm_not_c

            diag = confirm_not_c(e.stmt)
            where = "jacobian" if re.match(r"^(IJth|j\s*\(|data)", e.stmt) else "rhs"
            sig = f"C02:not-c:{where}" + (f":odemod:{ms}" if ms else "")
            viols.append((sig, f"emitted statement is not C (g++: {diag}): {e.stmt[:200]}", dict(oc.case_label(desc), backend=b)))
            continue
        except HarnessError:
            raise
        except Exception as e:
            sig = f"C02:render-error:{b}:{type(e).__name__}" + (f":odemod:{ms}" if ms else "")
            viols.append((sig, f"render raised {e!r}", dict(oc.case_label(desc), backend=b)))
            continue
        for sig, what in oc.check_c02(desc, ot, b):
            if ms:
                sig += f":odemod:{ms}"
            viols.append((sig, what, dict(oc.case_label(desc), backend=b)))
        ent += len(ot.jac)
    return len(oc.ALL_BACKENDS), viols, ent


def time_derivative_case(cooling):
    """Odeint's Rosenbrock stepper takes, next to J, the partial derivative of the right-hand side with respect to
    time from the same functor.  The emitted right-hand side does not depend on t, so every one of the NEQUATIONS
    entries must come back as exactly 0 - the vector handed in is filled with NaN beforehand (as odeint hands in
    uninitialised storage), so an entry the functor does not write is seen."""
    from ..harness import oderun as OR
    from ..harness.render import render, reset_globals, quiet
    from ..ctext.stmts import read_macros

    reset_globals()
    from naunet.network import Network
    from naunet.reactions.reaction import Reaction
    from naunet.reactiontype import ReactionType

    case = {"time_derivative": list(cooling)}
    with quiet():
        reacs = [Reaction(list(r), list(p_), -1.0, -1.0, 1e-10, 0.0, 0.0, ReactionType.GAS_TWOBODY, i + 1) for i, (r, p_) in enumerate(oc.PRIMORDIAL)]
        net = Network(reacs, cooling=list(cooling))
        files = render(net, "rosenbrock4", OR.TEMPLATES_ODEINT)
    mac = read_macros(files["include/naunet_macros.h"])
    neq = mac.value("NEQUATIONS")
    yvals = [[0.5 + ((7 * i + 3 * g) % 11) / 8.0 for i in range(neq)] for g in range(2)]
    if "IDX_TGAS" in mac.text:
        for yv, T in zip(yvals, (8.0e3, 2.5e4)):
            yv[mac.value("IDX_TGAS")] = T
    base = {"nH": 1e4, "Tgas": 50.0, "zeta": 1.3e-17, "Av": 1.0, "omega": 0.5}
    res = OR.build_and_run(files, "rosenbrock4", yvals, [dict(base, mu=-1.0, gamma=-1.0), dict(base, mu=1.3, gamma=1.6)])
    if "error" in res:
        return 1, [(f"C02:time-derivative:{res['error']}", f"cooling {cooling}: {res['detail'][:300]}", case)]
    for g, r in enumerate(res["runs"]):
        bad = [i for i, v in enumerate(r["dfdt"]) if not (v == 0.0)]
        if bad:
            return 1, [(f"C02:time-derivative:{'unwritten' if all(r['dfdt'][i] != r['dfdt'][i] for i in bad) else 'nonzero'}", f"cooling {cooling}, state {g}: the Jacobian functor of the Odeint back-end returns d(rhs)/dt = {[r['dfdt'][i] for i in bad]} at equations {bad} of {neq} (NaN = never written); the emitted right-hand side has no explicit time dependence", case)]
    return 1, []


def run(ctx):
    allc = list(cases(ctx.tier))
    seen = set()
    uniq = []
    for d in allc:
        key = repr(sorted(oc.case_label(d).items()))
        if key not in seen:
            seen.add(key)
            uniq.append(d)
    evals = 0
    entries = 0
    nontriv = 0
    for n, viols, ent in ctx.pmap(run_case, uniq, chunksize=1 if len(uniq) < 200 else 4):
        evals += n
        entries += ent
        nontriv += int(ent > 0)
        ctx.absorb(viols)
    for n, viols in ctx.pmap(time_derivative_case, [[], ["CIC_HI"], ["CIC_HI", "RC_HII"]]):
        evals += n
        ctx.absorb(viols)
    fam = {}
    for d in uniq:
        fam[d.get("family", "?")] = fam.get(d.get("family", "?"), 0) + 1
    ctx.assumptions += [
        "Odeint: the d(rhs)/dt vector the Jacobian functor also fills is compiled and executed on NaN-poisoned storage for three networks (no / one / two cooling processes): all NEQUATIONS entries exactly 0",
        "the oracle differentiates the *emitted* RHS (as read by E4), so C02 is independent of C01",
        "every non-y symbol (k, kc, gamma, kerg, npar, modifier factors) is held fixed, as the property states",
        "polynomial differentiation is exact (Fractions); the identity therefore holds for all abundance vectors",
    ]
    return {
        "evaluations": evals,
        "distinct_nontrivial": nontriv,
        "rule": "networks of C01 plus ODE-modifier shapes (0-3 dependencies with repeats) x 4 back-ends; non-trivial = the network has at least one stored Jacobian entry",
        "samples": [oc.case_label(uniq[i]) for i in (1, len(uniq) // 2, len(uniq) - 1)],
        "networks": len(uniq),
        "jacobian_entries_checked": entries,
        "families": fam,
        "exhaustive": True,
    }


def replay(ctx, case):
    if "time_derivative" in case:
        ctx.absorb(time_derivative_case(case["time_derivative"])[1])
        return
    case = dict(case)
    case.pop("backend", None)
    n, viols, _ = run_case(case)
    ctx.absorb(viols)
