"""C07 - reaction files of all six formats are decoded faithfully."""
from __future__ import annotations

import itertools
import shutil
import tempfile
from collections import Counter
from pathlib import Path

from ..core.runner import HarnessError
from ..ref import formats as F
from . import c05

LEVEL = "exploration"

NUMS = [0.0, 2.5, -2.5, 1e-10, -3.04e4]
WINDOWS = [(10, 300), (-9999, 9999), (0, 0), (5, 41000)]
WINDOWS_REAL = [(10.25, 300.75), (2.73, 154.5), (0.5, 0)]  # formats whose window fields are free text
IDXS = [1, 99999, 123456]

# reference code tables (transcribed from the format documentation, not from naunet)
KIDA_TYPES = {1: 101, 2: 102, 3: 100, 4: 110, 5: 111, 6: 103}
UMIST_TYPES = {c: 100 for c in ["AD", "CD", "CE", "DR", "IN", "MN", "NN", "RA", "REA", "RR"]}
UMIST_TYPES.update({"CP": 101, "CR": 120, "PH": 102})
LEEDS_TYPES = {1: 100, 2: 101, 3: 120, 4: 102, 5: 130, 6: 220, 7: 200, 8: 201, 9: 202, 10: 203, 11: 301, 12: 302, 13: 300, 14: 204, 20: 221,
               15: None, 16: None, 17: None, 18: None, 19: None}
UCL_TYPES = {None: 100, "CRP": 101, "PHOTON": 102, "CRPHOT": 120, "FREEZE": 200, "DESOH2": 210, "DESCR": 202, "DEUVCR": 203, "THERM": 201, "DIFF": 310, "CHEMDES": 204}
NATIVE_TYPES = [100, 101, 102, 103, 110, 111, 120, 130, 200, 201, 202, 203, 204, 210, 220, 221, 300, 301, 302, 310, 999, 1000]

MARKERS = {
    "kida": {1: "CR", 2: "Photon"},
    "umist": {"CP": "CRP", "CR": "CRPHOT", "PH": "PHOTON"},
    "leeds": {2: "CRP", 3: "CRPHOT", 4: "PHOTON", 5: "XRAY", 11: "CRPHOT", 12: "PHOTON"},
    "naunet": {101: "CR", 102: "PHOTON", 120: "CRPHOT"},
}
LIMITS = {"kida": (3, 5), "umist": (2, 4), "leeds": (3, 5), "uclchem": (3, 4), "naunet": (3, 5), "krome": (3, 4)}


def names_for(fmt):
    wide = {"kida": "C2H5C2H5O+", "leeds": "C2H5C2H5O", "umist": "C2H5C2H5OH2+", "uclchem": "C2H5C2H5OH2+", "naunet": "C2H5C2H5OH2+", "krome": "C2H5C2H5OH2+"}[fmt]
    surf = "GCO" if fmt == "leeds" else "#CO"
    return ["H", "HCO+", "C2H5OH", wide, "H-", surf, "e-"]


def layouts(fmt):
    """all (reactant names, product names) layouts: nr x np x rotating name classes"""
    nrmax, npmax = LIMITS[fmt]
    names = names_for(fmt)
    out = []
    for nr in range(1, nrmax + 1):
        for np_ in range(0, npmax + 1):
            for rot in range(len(names)):
                r = [names[(rot + i) % len(names)] for i in range(nr)]
                p = [names[(rot + nr + i) % len(names)] for i in range(np_)]
                out.append((r, p))
    # repeated species (multiplicity must survive)
    out.append((["H", "H"], ["H", "H", "H-"]))
    out.append((["H"] * nrmax, ["H"] * npmax))
    if fmt in ("umist", "uclchem", "naunet", "krome"):
        # separator-delimited formats carry names of any length (longer than the 12 characters the native writer pads to)
        out.append((["CH3CH2CH2CH2OH", "H3+"], ["CH3CH2CH2CH2OH2+", "H2"]))
        out.append((["CH3CH2CH2CH2OH2+", "e-"], ["CH3CH2CH2CH2OH", "H"]))
    return out


def gen_cases(fmt, tier):
    """-> list of (AReaction, expected dict, line text)"""
    cases = []

    def codes():
        if fmt == "kida":
            return list(KIDA_TYPES)
        if fmt == "umist":
            return list(UMIST_TYPES)
        if fmt == "leeds":
            return list(LEEDS_TYPES)
        if fmt == "uclchem":
            return list(UCL_TYPES)
        if fmt == "naunet":
            return NATIVE_TYPES
        return [None]

    lay = layouts(fmt)
    if tier == "quick":
        lay = lay[::3] + lay[-2:]
    n = 0
    # L1: layouts x every type code (numbers fixed)
    for r, p in lay:
        for code in codes():
            marker = MARKERS.get(fmt, {}).get(code) if fmt != "uclchem" else code
            rr = list(r)
            if fmt == "uclchem" and marker:
                rr = rr[:1]
            nrmax = LIMITS[fmt][0]
            if marker and fmt != "uclchem" and len(rr) + 1 > nrmax:
                rr = rr[: nrmax - 1]
            cases.append(mk(fmt, rr, p, 2.5, -0.5, 30.0, 10, 300, 4000 + n % 1000, code, marker))
            n += 1
    # L2: base layout x numbers^3 x idx x windows
    base_r, base_p = ["H", "HCO+"], ["H-", "C2H5OH"]
    nums = NUMS if tier != "quick" else NUMS[:4]
    code0 = {"kida": 3, "umist": "NN", "leeds": 1, "uclchem": None, "naunet": 100, "krome": None}[fmt]
    for a, b, c in itertools.product(nums, repeat=3):
        for idx in IDXS:
            w = WINDOWS[n % len(WINDOWS)]
            cases.append(mk(fmt, base_r, base_p, a, b, c, w[0], w[1], idx, code0, None))
            n += 1
    # numbers that fill their columns to the limit (Leeds a8/b9/c10, KIDA 10.3e with sign)
    for a, b, c in ((1.23e-10, -1234.567, 12345678.9), (-1.234e-10, 1234.5678, -2345678.9), (9.99e+22, -0.5, 1234567.8)):
        cases.append(mk(fmt, base_r, base_p, a, b, c, 10, 300, 99999, code0, None))
    for w in WINDOWS + (WINDOWS_REAL if fmt in ("umist", "uclchem", "naunet", "krome") else []):
        cases.append(mk(fmt, base_r, base_p, 1e-10, 0.0, 0.0, w[0], w[1], 7, code0, None))
    if fmt in ("umist", "uclchem", "naunet"):
        # separator-delimited formats: a number is whatever a C / Python reader accepts - no digit before the point,
        # none after it, explicit plus sign, upper-case exponent
        for spell in ({"0.5": ".5", "-0.5": "-.5", "25.0": ".25e2"}, {"0.5": "+.5E0", "-0.5": "-5.E-1", "25.0": "25."}, {"0.5": "5e-1", "25.0": "+25"}):
            c = mk(fmt, base_r, base_p, 0.5, -0.5, 25.0, 10, 300, 7, code0, None)
            if c is not None:
                ar_, exp_, line_ = c
                sep = ":" if fmt == "umist" else ","
                toks = [spell.get(t.strip(), t) for t in line_.split(sep)]
                if toks != line_.split(sep):
                    cases.append((ar_, exp_, sep.join(toks)))
    if fmt == "leeds":
        # the index column is an I5 field: Fortran writes it right-justified (leading blanks)
        for idx in (7, 42, 4956):
            c = mk(fmt, base_r, base_p, 1e-10, 0.5, 100.0, 10, 300, idx, code0, None)
            if c is not None:
                ar_, exp_, line_ = c
                cases.append((ar_, exp_, f"{idx:>5d}" + line_[5:]))
    if fmt == "leeds":
        # the rate file abbreviates CH2OHC... to YC... (10-character columns); the reader documents the expansion, for the
        # gas-phase name and for the same name behind the surface prefix
        full = lambda nm: nm.replace("YC", "CH2OHC")
        for r_, p_, code_ in ((["YCHO", "H"], ["YCO", "H2"], 1), (["YCHO"], ["GYCHO"], 7), (["GYCHO"], ["YCHO"], 8), (["GYCHO", "GH"], ["GYCO", "GH2"], 13), (["H", "GYCO"], ["GYCHO"], 13)):
            c = mk(fmt, r_, p_, 1e-10, 0.0, 100.0, 10, 300, 777, code_, None)
            if c is not None:
                c[1]["reactants"] = sorted(full(x) for x in r_)
                c[1]["products"] = sorted(full(x) for x in p_)
                cases.append(c)
    # markers in the product columns (the emitted photon of a radiative association, RATE12's ":RA:C+:C3:C4+:PHOTON:"):
    # every marker token of the format, at every product position
    for marker in PRODUCT_MARKERS[fmt]:
        for pos in range(0, 3):
            p = ["CH2+", "H"][: max(pos, 1)]
            p = p[:pos] + [marker] + p[pos:]
            if len(p) > LIMITS[fmt][1]:
                continue
            c = mk(fmt, ["C+", "H2"], p, 1e-10, 0.0, 0.0, 10, 300, 6043 + pos, code0, None)
            if c is not None:
                c[1]["products"] = sorted(x for x in p if x != marker)
                cases.append(c)
    return [c for c in cases if c is not None]


PRODUCT_MARKERS = {
    "kida": ["Photon", "CR"],
    "umist": ["PHOTON", "CRP", "CRPHOT"],
    "leeds": ["PHOTON", "CRP", "CRPHOT", "XRAY"],
    "uclchem": ["PHOTON", "CRP", "CRPHOT", "NAN"],
    "naunet": ["PHOTON", "CR", "CRPHOT"],
    "krome": [],
}


def mk(fmt, r, p, a, b, c, lo, hi, idx, code, marker):
    ar = F.AReaction(list(r), list(p), a, b, c, float(lo), float(hi), idx, code, marker)
    exp = {"reactants": sorted(r), "products": sorted(p), "idx": idx, "tmin": float(lo), "tmax": float(hi)}
    try:
        if fmt == "kida":
            line = F.enc_kida(ar)
            exp.update(alpha=float(f"{a:10.3e}"), beta=float(f"{b:10.3e}"), gamma=float(f"{c:10.3e}"), type=KIDA_TYPES[code])
        elif fmt == "umist":
            line = F.enc_umist(ar)
            exp.update(alpha=a, beta=b, gamma=c, type=UMIST_TYPES[code])
        elif fmt == "leeds":
            line = c05.encode("leeds", code, marker, r, p, a, b, c, idx, lo, hi)
            if line is None:
                return None
            exp.update(alpha=a, beta=b, gamma=c, type=LEEDS_TYPES[code])
            if LEEDS_TYPES[code] is None:
                exp.pop("type")
        elif fmt == "uclchem":
            line = F.enc_uclchem(ar)
            exp.update(alpha=a, beta=b, gamma=c, type=UCL_TYPES[code])
            exp.pop("idx")
            if code == "FREEZE":
                exp.update(tmin=0.0, tmax=30.0)  # documented: freeze-out is switched off above 30 K
        elif fmt == "naunet":
            line = F.enc_naunet(ar)
            exp.update(alpha=float(f"{a:10.3e}"), beta=float(f"{b:10.3e}"), gamma=float(f"{c:10.3e}"), type=code,
                       tmin=float(f"{float(lo):9.2f}"), tmax=float(f"{float(hi):9.2f}"))
        elif fmt == "krome":
            line = F.enc_krome(ar, tmin_txt=f"{lo:g}" if lo > 0 else "NONE", tmax_txt=f"{hi:g}" if hi > 0 else "NONE", rate=f"{a:.3e}".replace("e", "d") if a >= 0 else "1d0")
            exp.update(tmin=float(lo) if lo > 0 else -1.0, tmax=float(hi) if hi > 0 else -1.0)
        else:
            raise HarnessError(fmt)
    except ValueError:
        return None
    return (ar, exp, line)


def observe(r):
    return {
        "reactants": sorted(s.name for s in r.reactants),
        "products": sorted(s.name for s in r.products),
        "alpha": r.alpha,
        "beta": r.beta,
        "gamma": r.gamma,
        "tmin": float(r.temp_min),
        "tmax": float(r.temp_max),
        "idx": r.idxfromfile,
        "type": int(r.reaction_type) if r.reaction_type is not None else None,
    }


def compare(fmt, exp, got):
    bad = []
    for k, v in exp.items():
        if got.get(k) != v:
            bad.append(k)
    return bad


def run_lines(arg):
    fmt, tier = arg
    from ..harness.render import reset_globals, scratch, quiet

    reset_globals()
    from naunet.network import Network
    from naunet.species import Species

    viols = []
    cases = gen_cases(fmt, tier)
    tmp = Path(tempfile.mkdtemp(dir=scratch()))
    nchecked = 0
    try:
        kw = {"species_kwargs": {"surface_prefix": "G"}} if fmt == "leeds" else {}
        pre = "@format:idx,R,R,R,P,P,P,P,Tmin,Tmax,rate\n" if fmt == "krome" else ""
        # one line at a time through add_reaction((line, fmt)) would cost the same; use files of 200
        for off in range(0, len(cases), 200):
            chunk = cases[off : off + 200]
            f = tmp / f"c{off}.{fmt}"
            f.write_text(pre + "\n".join(c[2] for c in chunk) + "\n")
            try:
                with quiet():
                    net = Network(filelist=str(f), fileformats=fmt, **kw)
                rl = net.reaction_list
            except Exception as e:
                # find the offending line
                rl = None
                for ar, exp, line in chunk:
                    try:
                        with quiet():
                            n1 = Network(**kw)
                            n1.add_reaction((line, fmt))
                    except Exception as e1:
                        viols.append((f"C07:parse-error:{fmt}:{type(e1).__name__}", f"well-formed {fmt} line raises {e1!r}: {line!r}", {"fmt": fmt, "line": line}))
                        break
                else:
                    viols.append((f"C07:file-error:{fmt}:{type(e).__name__}", f"file of well-formed lines raises {e!r}", {"fmt": fmt}))
                continue
            if len(rl) != len(chunk):
                viols.append((f"C07:count:{fmt}", f"{len(chunk)} data lines -> {len(rl)} reactions", {"fmt": fmt, "lines": [c[2] for c in chunk[:3]]}))
                continue
            for (ar, exp, line), r in zip(chunk, rl):
                got = observe(r)
                nchecked += 1
                bad = compare(fmt, exp, got)
                if bad:
                    viols.append(
                        (
                            f"C07:field:{fmt}:{'+'.join(bad)}",
                            f"{fmt} line {line!r}: expected { {k: exp[k] for k in bad} } got { {k: got[k] for k in bad} }",
                            {"fmt": fmt, "line": line, "expected": exp},
                        )
                    )
                # marker tokens never become species
                for s in list(r.reactants) + list(r.products):
                    if s.name in F.PSEUDO or s.name in F.UCL_MARKERS or s.name == "NAN":
                        viols.append((f"C07:marker-as-species:{fmt}:{s.name}", f"{fmt} line {line!r}: marker {s.name} became a species", {"fmt": fmt, "line": line}))
        return fmt, len(cases), nchecked, viols
    finally:
        shutil.rmtree(tmp, ignore_errors=True)


# ---- files: every arrangement of <= 4 items --------------------------------------
def file_items(fmt):
    c = gen_cases(fmt, "quick")
    d1, d2 = c[0][2], c[5][2]
    items = {"D1": d1, "D2": d2, "BLANK": "", "SPACES": "   "}
    if fmt == "krome":
        items.update({"HASH": "# a comment", "SLASH": "// a comment", "FORMAT": "@format:idx,R,R,R,P,P,P,P,Tmin,Tmax,rate", "VAR": "@var: foo = 1d0", "COMMON": "@common: user_crate",
                      "HASHDIRECTIVE": "#@format:idx,R,P,rate", "SLASHDIRECTIVE": "//@var: foo = 2d0"})  # commented-out directives are comments
    return items


def kinds_of(arr):
    ks = {("blank-line" if k in ("BLANK", "SPACES") else k) for k in arr if k not in ("D1", "D2")}
    return sorted(ks)


def run_files(arg):
    fmt, tier = arg
    from ..harness.render import reset_globals, scratch, quiet

    reset_globals()
    from naunet.network import Network

    items = file_items(fmt)
    keys = list(items)
    maxlen = 3 if tier == "quick" else 4
    viols = []
    tmp = Path(tempfile.mkdtemp(dir=scratch()))
    n = 0
    kw = {"species_kwargs": {"surface_prefix": "G"}} if fmt == "leeds" else {}
    try:
        for L in range(1, maxlen + 1):
            for arr in itertools.product(keys, repeat=L):
                for trailing_nl in (True, False):
                    if fmt == "krome" and "FORMAT" not in arr:
                        text_lines = [items["FORMAT"]] + [items[k] for k in arr]
                    else:
                        text_lines = [items[k] for k in arr]
                    text = "\n".join(text_lines) + ("\n" if trailing_nl else "")
                    nd = sum(1 for k in arr if k in ("D1", "D2"))
                    order = [k for k in arr if k in ("D1", "D2")]
                    f = tmp / f"f.{fmt}"
                    f.write_text(text)
                    n += 1
                    try:
                        with quiet():
                            net = Network(filelist=str(f), fileformats=fmt, **kw)
                    except Exception as e:
                        kinds = kinds_of(arr)
                        viols.append((f"C07:file-raises:{fmt}:{'+'.join(kinds) or 'data-only'}:{type(e).__name__}", f"{fmt} file {arr} (trailing newline={trailing_nl}) raises {e!r}", {"fmt": fmt, "arrangement": list(arr), "trailing_nl": trailing_nl}))
                        continue
                    got = len(net.reaction_list)
                    if got != nd:
                        kinds = kinds_of(arr)
                        viols.append((f"C07:file-count:{fmt}:{'+'.join(kinds) or 'data-only'}", f"{fmt} file {arr}: {nd} data lines but {got} reactions", {"fmt": fmt, "arrangement": list(arr), "trailing_nl": trailing_nl}))
                        continue
                    # order preserved
                    d1r = sorted(s.name for s in net.reaction_list[0].reactants) if got else None
                    ref = gen_cases(fmt, "quick")
                    e1 = ref[0][1]["reactants"]
                    e2 = ref[5][1]["reactants"]
                    for k, r in zip(order, net.reaction_list):
                        if sorted(s.name for s in r.reactants) != (e1 if k == "D1" else e2):
                            viols.append((f"C07:file-order:{fmt}", f"{fmt} file {arr}: reactions out of file order", {"fmt": fmt, "arrangement": list(arr)}))
                            break
                        # the neighbouring lines must not change how a data line is decoded
                        bad = compare(fmt, ref[0][1] if k == "D1" else ref[5][1], observe(r))
                        if bad:
                            kinds = kinds_of(arr)
                            viols.append((f"C07:file-decoding:{fmt}:{'+'.join(kinds) or 'data-only'}:{'+'.join(bad)}", f"{fmt} file {arr}: data line {k} decoded differently inside this file: fields {bad}", {"fmt": fmt, "arrangement": list(arr), "trailing_nl": trailing_nl}))
                            break
        return fmt, n, viols
    finally:
        shutil.rmtree(tmp, ignore_errors=True)


def run_multifile(fmt):
    """several files of one format given to one network: every way the API offers of saying so (a list of formats,
    ONE format string for the whole list, files added one after the other) holds the data lines of all files, in
    file order and decoded as they are alone"""
    from ..harness.render import reset_globals, scratch, quiet

    reset_globals()
    from naunet.network import Network

    ref = gen_cases(fmt, "quick")
    picks = [ref[0], ref[5], ref[9]]
    kw = {"species_kwargs": {"surface_prefix": "G"}} if fmt == "leeds" else {}
    pre = (file_items("krome")["FORMAT"] + "\n") if fmt == "krome" else ""
    tmp = Path(tempfile.mkdtemp(dir=scratch()))
    viols = []
    n = 0
    try:
        for nfiles in (2, 3):
            paths = []
            for i in range(nfiles):
                f = tmp / f"m{i}.{fmt}"
                f.write_text(pre + picks[i][2] + "\n" + (picks[(i + 1) % 3][2] + "\n" if i == 0 else ""))
                paths.append(str(f))
            want = [picks[0], picks[1]] + [picks[i] for i in range(1, nfiles)]
            for how in ("format-list", "one-format-string", "added-one-by-one"):
                case = {"fmt": fmt, "multifile": nfiles, "how": how}
                n += 1
                try:
                    with quiet():
                        if how == "format-list":
                            net = Network(filelist=paths, fileformats=[fmt] * nfiles, **kw)
                        elif how == "one-format-string":
                            net = Network(filelist=paths, fileformats=fmt, **kw)
                        else:
                            net = Network(filelist=paths[0], fileformats=fmt, **kw)
                            for p_ in paths[1:]:
                                net.add_reaction_from_file(p_, fmt)
                except Exception as e:
                    viols.append((f"C07:multifile:{fmt}:{how}:raises", f"{nfiles} {fmt} files ({how}) raise {e!r}", case))
                    continue
                if len(net.reaction_list) != len(want):
                    viols.append((f"C07:multifile:{fmt}:{how}:count", f"{nfiles} {fmt} files ({how}) hold {len(want)} data lines, the network holds {len(net.reaction_list)} reactions", case))
                    continue
                for (ar_, exp_, line_), r in zip(want, net.reaction_list):
                    bad = compare(fmt, exp_, observe(r))
                    if bad:
                        viols.append((f"C07:multifile:{fmt}:{how}:decoding", f"{nfiles} {fmt} files ({how}): a data line is decoded differently (or out of order): fields {bad}", case))
                        break
        if fmt == "kida":
            # a file of database size (beyond 1 MiB): one reaction per data line, to the last line
            nlines = 1 + (1 << 20) // (len(picks[0][2]) + 1) + 600
            big = tmp / "big.kida"
            big.write_text("\n".join(picks[i % 3][2] for i in range(nlines)) + "\n")
            n += 1
            try:
                with quiet():
                    net = Network(filelist=str(big), fileformats=fmt)
                if len(net.reaction_list) != nlines:
                    viols.append((f"C07:large-file:count", f"a KIDA file of {nlines} data lines ({big.stat().st_size} bytes) gives {len(net.reaction_list)} reactions", {"fmt": fmt, "multifile": 1, "how": "large-file"}))
                elif compare(fmt, picks[(nlines - 1) % 3][1], observe(net.reaction_list[-1])):
                    viols.append((f"C07:large-file:last-line", f"the last line of a KIDA file of {nlines} data lines is decoded differently", {"fmt": fmt, "multifile": 1, "how": "large-file"}))
            except Exception as e:
                viols.append((f"C07:large-file:raises", f"a KIDA file of {nlines} data lines raises {e!r}", {"fmt": fmt, "multifile": 1, "how": "large-file"}))
        return n, viols
    finally:
        shutil.rmtree(tmp, ignore_errors=True)


FORMATS = ["kida", "umist", "leeds", "uclchem", "naunet", "krome"]

# ---- KROME: the column layout is data (the @format directive), so it is enumerated too ---------
KROME_FORMATS = [
    "idx,R,R,R,P,P,P,P,Tmin,Tmax,rate",
    "idx,R,R,P,P,rate",
    "idx,R,P,rate",
    "R,R,P,P,P,Tmin,Tmax,rate",
    "idx,R,R,P,P,P,P,P,Tmin,Tmax,rate",
    "idx,Tmin,Tmax,R,R,R,P,P,P,rate",
    "IDX,R,R,P,P,P,TMIN,TMAX,RATE",
    "idx,r,r,p,p,p,tmin,tmax,rate",
]
KROME_LIMITS = [("NONE", -1.0), ("N", -1.0), ("10", 10.0), (">10", 10.0), (".GE.10", 10.0), ("1d1", 10.0), ("1.5d2", 150.0), ("<1d4", 1e4), (".LT.1d4", 1e4), ("2.5e3", 2500.0), (".5d3", 500.0), ("<.75e2", 75.0), (".GE..25d2", 25.0), ("1.0d+1", 10.0), (".LE.2.8d+2", 280.0), ("1d+04", 1e4), ("2.5e+3", 2500.0)]
KROME_NAMES = ["H", "HCO+", "H-", "E", "C2H5OH", "He+", "H2"]


def krome_format_cases(tier):
    out = []
    n = 0
    for fmt in KROME_FORMATS:
        keys = fmt.lower().split(",")
        nr, np_ = keys.count("r"), keys.count("p")
        for r in range(1, nr + 1):
            for pn in range(0, np_ + 1):
                lims = KROME_LIMITS if (r, pn) == (min(2, nr), min(2, np_)) or tier != "quick" else [KROME_LIMITS[n % len(KROME_LIMITS)]]
                for lo_txt, lo in lims:
                    hi_txt, hi = KROME_LIMITS[(n + 3) % len(KROME_LIMITS)]
                    reac = [KROME_NAMES[(n + i) % len(KROME_NAMES)] for i in range(r)]
                    prod = [KROME_NAMES[(n + 2 + 2 * i) % len(KROME_NAMES)] for i in range(pn)]
                    idx = 1 + (n * 37) % 9973
                    ar = F.AReaction(reac, prod, 1e-10, 0.0, 0.0, lo, hi, idx, None, None)
                    line = F.enc_krome(ar, fmt=fmt, tmin_txt=lo_txt, tmax_txt=hi_txt, rate=f"{1 + n % 7}.5d-{10 + n % 5}")
                    exp = {"reactants": sorted(reac), "products": sorted(prod),
                           "idx": idx if "idx" in keys else -1,
                           "tmin": lo if "tmin" in keys else -1.0, "tmax": hi if "tmax" in keys else -1.0,
                           "rate": f"{1 + n % 7}.5d-{10 + n % 5}"}
                    out.append((fmt, line, exp))
                    n += 1
    return out


def run_krome_formats(tier):
    from ..harness.render import reset_globals, scratch, quiet

    reset_globals()
    from naunet.network import Network

    cases = krome_format_cases(tier)
    viols = []
    tmp = Path(tempfile.mkdtemp(dir=scratch()))
    nchecked = 0
    try:
        # (1) one file per directive; (2) one file in which the directive changes between blocks, in both orders
        byfmt = {}
        for c in cases:
            byfmt.setdefault(c[0], []).append(c)
        files = [([(f, byfmt[f])], "", "") for f in KROME_FORMATS]
        # the directive line itself with blanks around the column list (trailing blanks / a tab, a blank after the colon)
        files += [([(f, byfmt[f][:8])], pre_, post_) for f in KROME_FORMATS[:4] for pre_, post_ in (("", "  "), ("", "\t"), (" ", ""), (" ", " "))]
        # ... and files whose last record has no line terminator (marked by post_ = None)
        files += [([(f, byfmt[f][:5])], "", None) for f in KROME_FORMATS[:4]]
        files.append(([(f, byfmt[f][:6]) for f in KROME_FORMATS], "", ""))
        files.append(([(f, byfmt[f][:6]) for f in reversed(KROME_FORMATS)], "", ""))
        for blocks, pre_, post_ in files:
            text = ""
            chunk = []
            for fmt, cs in blocks:
                text += f"@format:{pre_}{fmt}{post_ or ''}\n" + "\n".join(c[1] for c in cs) + "\n"
                chunk += cs
            if post_ is None:
                text = text.rstrip("\n")
            f = tmp / "k.krome"
            f.write_text(text)
            label = ("+".join(b[0] for b in blocks) + (" (blanks around the column list)" if pre_ or post_ else " (no final newline)" if post_ is None else "")) if len(blocks) == 1 else f"{len(blocks)} directives in one file"
            try:
                with quiet():
                    net = Network(filelist=str(f), fileformats="krome")
            except Exception as e:
                viols.append((f"C07:krome-format:raises:{type(e).__name__}:{blocks[0][0] if len(blocks) == 1 else 'switching'}", f"KROME file with @format:{label} raises {e!r}", {"fmt": "krome", "kromeformats": True}))
                continue
            rl = net.reaction_list
            if len(rl) != len(chunk):
                viols.append((f"C07:krome-format:count:{blocks[0][0] if len(blocks) == 1 else 'switching'}", f"KROME file with @format:{label}: {len(chunk)} data lines -> {len(rl)} reactions", {"fmt": "krome", "kromeformats": True}))
                continue
            for (fmt, line, exp), r in zip(chunk, rl):
                got = observe(r)
                got["rate"] = r.rate_string
                nchecked += 1
                bad = [k for k, v in exp.items() if got.get(k) != v]
                if bad:
                    where = "single" if len(blocks) == 1 else "switching"
                    viols.append((f"C07:krome-format:field:{'+'.join(bad)}:{fmt}:{where}", f"@format:{fmt} line {line!r}: expected { {k: exp[k] for k in bad} } got { {k: got.get(k) for k in bad} }", {"fmt": "krome", "kromeformats": True, "line": line}))
        # (3) one network reading several KROME files: a directive holds for its own file only; a file without
        # directive is in KROME's default layout, whatever was read before (also with another format in between)
        dflt = KROME_FORMATS[0]
        custom = KROME_FORMATS[1]
        fa, fb, fk = tmp / "a.krome", tmp / "b.krome", tmp / "c.kida"
        fa.write_text(f"@format:{custom}\n" + "\n".join(c[1] for c in byfmt[custom][:5]) + "\n")
        fb.write_text("\n".join(c[1] for c in byfmt[dflt][:5]) + "\n")  # no directive
        fk.write_text(F.enc_kida(F.AReaction(["C", "CH"], ["H", "C2"], 2.4e-10, 0.0, 0.0, 10, 300, 1, 3)) + "\n")
        for order, label in (([fa, fb], "custom-then-default"), ([fb, fa], "default-then-custom"), ([fa, fk, fb], "custom-kida-default")):
            exp_all = []
            for f in order:
                exp_all += [(custom, c) for c in byfmt[custom][:5]] if f == fa else [(dflt, c) for c in byfmt[dflt][:5]] if f == fb else [None]
            try:
                with quiet():
                    net = Network(filelist=[str(f) for f in order], fileformats=["kida" if f == fk else "krome" for f in order])
            except Exception as e:
                viols.append((f"C07:krome-format:multi-file:raises:{label}", f"network reading {[f.name for f in order]} raises {e!r}", {"fmt": "krome", "kromeformats": True}))
                continue
            rl = net.reaction_list
            if len(rl) != len(exp_all):
                viols.append((f"C07:krome-format:multi-file:count:{label}", f"{[f.name for f in order]}: {len(exp_all)} data lines -> {len(rl)} reactions", {"fmt": "krome", "kromeformats": True}))
                continue
            for item, r in zip(exp_all, rl):
                if item is None:
                    continue
                fmt, (_f, line, exp) = item
                got = observe(r)
                got["rate"] = getattr(r, "rate_string", None)
                nchecked += 1
                bad = [k for k, v in exp.items() if got.get(k) != v]
                if bad:
                    viols.append((f"C07:krome-format:multi-file:field:{'+'.join(bad)}:{label}", f"{label}: line {line!r} of the file {'with @format:' + fmt if fmt == custom else 'without directive'}: expected { {k: exp[k] for k in bad} } got { {k: got.get(k) for k in bad} }", {"fmt": "krome", "kromeformats": True}))
                    break
        return len(cases), nchecked, viols
    finally:
        shutil.rmtree(tmp, ignore_errors=True)



def run_user_markers(_):
    """process tags declared by the user (pseudo_elements=[...]) are markers like the built-in ones: a line that
    carries one decodes to the same reaction without it"""
    from ..harness.render import reset_globals, quiet

    reset_globals()
    from naunet.network import Network
    from naunet.species import Species

    from ..harness.render import scratch

    tmp = Path(tempfile.mkdtemp(dir=scratch()))
    viols = []
    n = 0
    user = ["UVPHOT", "H2FORM", "ER"]
    lines = {
        "uclchem": [("H,H,H2FORM,H2,NAN,NAN,NAN,1.0,0.0,0.0,10,41000", ["H", "H"], ["H2"]), ("CO,UVPHOT,NAN,C,O,NAN,NAN,1e-10,0.0,2.5,10,41000", ["CO"], ["C", "O"])],
        "kida": [(F.enc_kida(F.AReaction(["CO"], ["C", "O"], 1e-10, 0.0, 2.5, 10, 300, 7, 3, "UVPHOT")), ["CO"], ["C", "O"])],
        "umist": [(F.enc_umist(F.AReaction(["H", "H"], ["H2"], 1e-17, 0.0, 0.0, 10.0, 300.0, 9, "NN", None)).replace(":H:H:", ":H:H:", 1), ["H", "H"], ["H2"]),
                  (F.enc_umist(F.AReaction(["CO"], ["C", "O"], 1e-10, 0.0, 2.5, 10.0, 300.0, 11, "NN", "ER")), ["CO"], ["C", "O"])],
        "krome": [("@format:idx,R,R,P,P,rate", None, None), ("3,CO,UVPHOT,C,O,1d-10", ["CO"], ["C", "O"])],
    }
    with quiet():
        for fmt, items in lines.items():
            for placement in ("constructor", "global"):
                reset_globals()
                if placement == "constructor":
                    net = Network(elements=list(Species.default_elements), pseudo_elements=list(Species.default_pseudoelements) + user)
                else:
                    Species.set_known_elements(list(Species.default_elements))
                    Species.set_known_pseudoelements(list(Species.default_pseudoelements) + user)
                    net = Network()
                case = {"fmt": fmt, "usermarkers": True}
                f = tmp / f"um.{fmt}"
                f.write_text("\n".join(ln for ln, _r, _p in items) + "\n")
                data = [(ln, r, p_) for ln, r, p_ in items if r is not None]
                n += len(data)
                try:
                    net.add_reaction_from_file(str(f), fmt)
                except Exception as e:
                    viols.append((f"C07:user-marker:raises:{fmt}", f"{fmt} file {[x[0] for x in items]} with user markers {user} ({placement}) raises {e!r}", case))
                    continue
                if len(net.reaction_list) != len(data):
                    viols.append((f"C07:user-marker:count:{fmt}", f"{fmt}: {len(data)} data lines -> {len(net.reaction_list)} reactions", case))
                    continue
                for (ln, r, p_), reac in zip(data, net.reaction_list):
                    got = observe(reac)
                    if got["reactants"] != sorted(r) or got["products"] != sorted(p_):
                        viols.append((f"C07:user-marker:as-species:{fmt}", f"{fmt} line {ln!r} with pseudo-elements {user} ({placement}): decoded {got['reactants']} -> {got['products']}, expected {sorted(r)} -> {sorted(p_)}", case))
                        break
        shutil.rmtree(tmp, ignore_errors=True)
    return n, viols


def umist_multirange(ctx):
    """UMIST lines with NE = 2 carry two (alpha,beta,gamma,Tl,Tu) sets.  Kept separate from the
    single-range oracle: the statement also says 'one reaction per data line'."""
    from ..harness.render import reset_globals, quiet

    reset_globals()
    from naunet.network import Network

    line = '75:AD:H-:H:H2:e-:::2:4.82e-09:0.02:4.3:10:100:M:A:"r":"n":4.32e-09:-0.39:39.4:101:3000:M:A:"r":"n":'
    with quiet():
        net = Network()
        net.add_reaction((line, "umist"))
    rs = net.reaction_list
    covered = any(r.temp_max >= 3000 or r.temp_max <= 0 for r in rs)
    if not covered:
        ctx.violation("C07:umist:NE=2:second-range-dropped", f"UMIST line with two temperature ranges: only ({rs[0].temp_min},{rs[0].temp_max}) with alpha={rs[0].alpha} is kept; the 101-3000 K fit is silently dropped", {"fmt": "umist", "line": line, "multirange": True})


def run(ctx):
    work = [(f, ctx.tier) for f in FORMATS]
    nl = nc = nf = 0
    per = {}
    for fmt, ncase, nchk, viols in ctx.pmap(run_lines, work):
        nl += ncase
        nc += nchk
        per[fmt] = ncase
        ctx.absorb(viols)
    for fmt, n, viols in ctx.pmap(run_files, work):
        nf += n
        ctx.absorb(viols)
    for n, viols in ctx.pmap(run_multifile, FORMATS):
        nf += n
        ctx.absorb(viols)
    umist_multirange(ctx)
    (nk, nkc, viols), = list(ctx.pmap(run_krome_formats, [ctx.tier]))
    ctx.absorb(viols)
    nc += nkc
    (num, viols), = list(ctx.pmap(run_user_markers, [0]))
    ctx.absorb(viols)
    nc += num
    ctx.assumptions += [
        "KROME @format directives: keys are case-insensitive (KROME's own reader lower-cases them); a directive governs the lines after it until the next directive; temperature limits may carry KROME's operator prefixes (>, <, .GE., .LT. ...) and Fortran d-exponents; a missing idx column leaves the index at -1, missing Tmin/Tmax columns leave the window open",
        "several files for one network: a list of formats, one format string for the whole list (the signature allows `str | list[str]`) and add_reaction_from_file must each hold every data line of every file in order",
        "lines are produced by my own per-format encoders (mc/ref/formats.py) following the published column layouts; the expected values are the abstract reaction that was encoded (after the format's own printed rounding)",
        "type codes expected: own transcription of the KIDA / RATE12 / Walsh+2015 / UCLCHEM tables; Leeds types 15-19 define no type and are not judged on it",
        "KROME lines carry no type; their rate text is C12's subject",
    ]
    return {
        "evaluations": nc + nf,
        "distinct_nontrivial": nl,
        "rule": "per format: every (reactant count, product count) layout x rotating name classes (1-char, charged, mid, column-filling, anion, surface, electron) x every type code; numbers^3 x index {1,99999} x windows on a base layout; files = every arrangement of <=4 items from {data1,data2,blank,spaces (+ KROME #,//,@format,@var,@common)} with and without trailing newline; KROME: 8 @format directives (column orders, 1-3 R, 1-5 P, with/without idx and window columns, key case) x every (reactant count, product count) x limit spellings (NONE, N, plain, >, .GE., <, .LT., d- and e-exponents), one directive per file, all directives switching inside one file in both orders, and one network reading a file with a directive and a file without (both orders, also with a KIDA file in between)",
        "samples": [gen_cases(f, "quick")[3][2] for f in FORMATS],
        "lines_per_format": per,
        "lines_checked": nc,
        "krome_format_directives": len(KROME_FORMATS),
        "krome_format_lines": nk,
        "files_checked": nf,
        "exhaustive": True,
    }


def replay(ctx, case):
    if "multifile" in case:
        ctx.absorb(run_multifile(case["fmt"])[1])
        return
    fmt = case["fmt"]
    if case.get("multirange"):
        umist_multirange(ctx)
    elif case.get("usermarkers"):
        ctx.absorb(run_user_markers(0)[1])
    elif case.get("kromeformats"):
        ctx.absorb(run_krome_formats("thorough")[2])
    elif "arrangement" in case:
        _, _, viols = run_files((fmt, "thorough"))
        ctx.absorb(viols)
    else:
        _, _, _, viols = run_lines((fmt, "thorough"))
        ctx.absorb(viols)
