"""C19 - Solve integrates exactly the requested interval or reports failure.
E3: stateless, deviation-bounded choice-sequence exploration compiled into a harness that
links the *rendered* naunet.cpp against a scripted mock integrator."""
from __future__ import annotations

import json
import shutil
import subprocess
import tempfile
from pathlib import Path

from ..core.runner import HarnessError, VERIF

LEVEL = "fault_enumeration"

RECOVERABLE = [-1, -2, -3, -4]
RESET = [-6]
FATAL = [-5, -7, -8]


def build_harness(ctx_scratch: Path, backend: str, thermal: bool = False, asan: bool = False, pyentry: bool = False):
    from ..harness.render import render, reset_globals, quiet
    from ..harness.cxx import GXX, SHIM, run

    reset_globals()
    from naunet.network import Network

    with quiet():
        if thermal:
            # NEQUATIONS = NSPECIES + 1: the temperature equation is integrated (and recovered) like any other
            net = Network(required_species=["H", "e-", "H+"], cooling=["CIC_HI"])
        else:
            net = Network(required_species=["H"])
        files = render(net, backend, None)
    d = Path(tempfile.mkdtemp(dir=ctx_scratch))
    for rel, text in files.items():
        p = d / rel
        p.parent.mkdir(parents=True, exist_ok=True)
        p.write_text(text)
    if backend == "rosenbrock4":
        drv = VERIF / "cxx" / "c19_odeint_driver.cpp"
    else:
        drv = VERIF / "cxx" / "c19_cvode_driver.cpp"
    srcs = sorted(str(p.relative_to(d)) for p in (d / "src").glob("*.cpp"))
    extra = []
    if backend == "cusparse":
        # host-compilable .cu units (no kernel launches): constants, physics, renorm
        for name in ("naunet_constants", "naunet_physics", "naunet_renorm"):
            cu = d / "src" / f"{name}.cu"
            if cu.exists():
                # CUDA provides min/max as built-ins
                (d / "src" / f"{name}_cu.cpp").write_text("#include <algorithm>\nusing std::min; using std::max;\n" + cu.read_text())
                srcs.append(f"src/{name}_cu.cpp")
        extra = ["-D__host__=", "-D__device__=", "-D__constant__=const", "-D__global__="]
    if pyentry:
        # built as the python module is built; the driver calls PyWrapSolve (pybind11 stand-in) instead of Solve
        extra = list(extra) + ["-DPYMODULE", "-DPYMODNAME=pymod", "-DVERIF_PYENTRY"]
    if asan:
        extra = list(extra) + ["-fsanitize=address,undefined", "-fno-sanitize-recover=all", "-g", "-O1"]
    cmd = [GXX, "-std=c++17", "-O2", "-w", *extra, "-include", str(VERIF / "cxx" / "verif_io.h"), "-I", str(SHIM), "-I", "include", *srcs, str(drv), str(VERIF / "cxx" / "verif_wrap_fopen.cpp"), "-Wl,--wrap=fopen", "-o", "drv", "-lm"]
    rc, so, se = run(cmd, cwd=str(d), timeout=600)
    if rc != 0:
        first = "\n".join(ln for ln in se.splitlines() if "error" in ln)[:1500]
        return d, None, first
    return d, d / "drv", None


def run_drv(args):
    drv, argv = args
    p = subprocess.run([str(drv)] + [str(a) for a in argv], capture_output=True, text=True, timeout=7200, cwd=str(Path(drv).parent), env={"ASAN_OPTIONS": "detect_leaks=0"})
    if p.returncode < 0 or "AddressSanitizer" in p.stderr or "runtime error" in p.stderr:
        # the compiled harness (rendered Solve/HandleError + mock integrator) died: reported by the caller after a
        # second run under the address sanitizer that names the access
        head = next((ln for ln in p.stderr.splitlines() if "ERROR: AddressSanitizer" in ln or "runtime error" in ln), "")
        where = next((ln.strip() for ln in p.stderr.splitlines() if "naunet.cpp" in ln), "")
        return argv, {"crash": p.returncode, "detail": (head + " " + where)[:400]}
    if p.returncode != 0:
        raise HarnessError(f"driver failed rc={p.returncode}: {p.stderr[-500:]} {p.stdout[-300:]}")
    return argv, json.loads(p.stdout.strip().splitlines()[-1])


def csv(xs):
    return ",".join(str(x) for x in xs)


def cvode_passes(tier):
    """(name, mode, lvl, flags, fracs, okflags, reinit_can_fail, dt)"""
    P = []
    if tier == "quick":
        # positions {1,2,mid,last-1,last} on every level, both ends of the recoverable range + reset + two fatal flags
        P.append(("T1", 1, 0, [-1, -6, -5], [0.5], [0], 0, 3.15e7))
        # (every documented CVODE failure class: -1..-8 and representatives of the rest: RHS failures -9..-11, illegal input -22, tout too close -27)
        P.append(("T3", 3, 0, [-1, -2, -3, -4, -5, -6, -7, -8, -9, -11, -22, -27], [0.0, 0.5], [0, 99], 1, 1.0))
        for dt in (1e-12, 1e30):  # the interval is a number, not a number of seconds: tiny and huge values too
            P.append((f"T3@{dt:g}", 3, 0, [-1, -6, -5], [0.5], [0], 1, dt))
        for lvl in (1, 5):
            P.append((f"T2.{lvl}", 2, lvl, [-1, -6, -5], [0.5], [0], 0, 1e-3))
    else:
        P.append(("T1", 1, 0, [-1, -4, -6, -5, -7], [0.0, 0.5], [0], 0, 3.15e7))
        for dt in (1.0, 3.15e7, 1e-3, 1e-12, 1e30):
            P.append((f"T3@{dt:g}", 3, 0, [-1, -2, -3, -4, -5, -6, -7, -8, -9, -10, -11, -22, -27], [0.0, 0.5, 1 - 2.0**-20], [0, 99], 1, dt))
        for lvl in (1, 2, 3, 4, 5):
            for dt in (1.0, 3.15e7, 1e-3):
                P.append((f"T2.{lvl}@{dt:g}", 2, lvl, [-1, -4, -6, -5], [0.0, 0.5], [0], 0, dt))
    return P


def classify(msg):
    if "configured with other" in msg:
        return "integrator-misconfigured"
    if "second Solve" in msg:
        return "second-solve"
    if "integrated" in msg and "never failed" in msg:
        return "wrong-interval-without-any-failure"
    if "integrated" in msg:
        return "wrong-interval"
    if "returned SUCCESS although" in msg:
        return "failure-reported-as-success"
    if "unrecoverable flag was returned" in msg:
        return "unrecoverable-not-reported"
    if "returned FAIL although" in msg:
        return "spurious-failure"
    if "initial state" in msg:
        return "initial-state-not-logged"
    if "more time" in msg:
        return "integrator-called-after-fatal"
    if "tout" in msg:
        return "tout-not-increasing"
    return "other"


def run(ctx):
    total = 0
    per_pass = {}
    samples = []
    compiled = []
    cap = 40_000_000 if ctx.tier == "quick" else 2_000_000_000
    for backend in ("dense", "sparse", "dense+thermal", "dense+py"):
        d, drv, err = build_harness(ctx.scratch, backend.split("+")[0], thermal=backend.endswith("+thermal"), pyentry=backend.endswith("+py"))
        if drv is None:
            raise HarnessError(f"C19 harness does not compile for {backend}: {err}")
        compiled.append(backend)
        try:
            work = []
            for (name, mode, lvl, flags, fracs, ok, rf, dt) in cvode_passes(ctx.tier):
                if backend != "dense" and not name.startswith("T3"):
                    continue  # Solve/HandleError text is identical for dense and sparse (checked below); one full ladder pass is enough
                arity = len(ok) + len(flags) * len(fracs)
                roots = [[c] for c in range(arity)]
                # split further for the big pass
                if name == "T1":
                    roots = [[c] for c in range(len(ok))] + [[c, c2] for c in range(len(ok), arity) for c2 in range(arity)]
                for r in roots:
                    work.append((drv, [mode, lvl, csv(flags), csv(fracs), csv(ok), rf, repr(dt), csv(r), cap]))
            results = list(ctx.pmap(run_drv, work))
            crashes = [argv for argv, res in results if "crash" in res]
            if crashes:
                d2, drv2, err2 = build_harness(ctx.scratch, backend.split("+")[0], thermal=backend.endswith("+thermal"), asan=True, pyentry=backend.endswith("+py"))
                if drv2 is None:
                    raise HarnessError(f"sanitizer build failed: {err2}")
                try:
                    a0, r0 = run_drv((drv2, crashes[0]))
                finally:
                    shutil.rmtree(d2, ignore_errors=True)
                detail = r0.get("detail") or f"killed by signal {-r0.get('crash', 0)}" if "crash" in r0 else "no report under the sanitizer (optimised build killed by a signal)"
                kind = "heap-or-stack-overflow" if "overflow" in detail else "memory-error"
                ctx.violation(f"C19:{backend}:{kind}", f"{backend}: the rendered Solve / HandleError accesses memory outside its objects during pass {crashes[0][:7]}: {detail}", {"backend": backend, "argv": crashes[0][:8], "choices": [], "crash": True})
                results = [(a, r) for a, r in results if "crash" not in r]
            for argv, res in results:
                key = f"{backend}:mode{argv[0]}" + (f".{argv[1]}" if argv[0] == 2 else "") + f"@{argv[6]}"
                pp = per_pass.setdefault(key, {"runs": 0, "success": 0, "fail": 0, "capped": False, "deepest_level": [0] * 8})
                pp["runs"] += res["runs"]
                pp["success"] += res["success"]
                pp["fail"] += res["fail"]
                pp["capped"] = pp["capped"] or res["capped"]
                pp["deepest_level"] = [a + b for a, b in zip(pp["deepest_level"], res["deepest_level"])]
                total += res["runs"]
                if res["violations"]:
                    case = {"backend": backend, "argv": argv[:8], "choices": res["choices"]}
                    ctx.violation(f"C19:{backend}:{classify(res['first_violation'])}", f"{backend} alphabet {argv[2]} x {argv[3]} dt={argv[6]}: choice sequence {res['choices']}: {res['first_violation']} ({res['violations']} executions in this subtree)", case)
                elif len(samples) < 4:
                    samples.append({"backend": backend, "pass_argv": argv[:8], "runs": res["runs"]})
        finally:
            shutil.rmtree(d, ignore_errors=True)
    # cuSPARSE variant of Solve (CUDA runtime emulated on the host): there is no recovery ladder, so the
    # alphabet is just the outcome of the single CVode call
    d, drv, err = build_harness(ctx.scratch, "cusparse")
    if drv is None and err and "src/naunet" in err and "driver" not in err.split("src/naunet")[0][-80:]:
        # the diagnostics name the rendered library, not the harness: a Solve that cannot be compiled integrates nothing
        ctx.violation("C19:cusparse:generated-solve-does-not-compile", f"cusparse: the rendered naunet.cpp does not compile for the host emulation: {err[:400]}", {"backend": "cusparse", "compile": True})
        shutil.rmtree(d, ignore_errors=True)
        d, drv = None, "skip"
    if drv is None:
        raise HarnessError(f"C19 cusparse harness does not compile: {err}")
    compiled.append("cusparse")
    try:
        if drv == "skip":
            raise StopIteration
        flags = [-1, -2, -3, -4, -5, -6, -7, -8]
        argv0 = [3, 0, csv(flags), csv([0.0, 0.5]), csv([0, 99]), 0, repr(3.15e7), "-", cap]
        argv, res = run_drv((drv, argv0))
        if "crash" in res:
            d2, drv2, err2 = build_harness(ctx.scratch, "cusparse", asan=True)
            detail = "no report under the sanitizer"
            if drv2 is not None:
                try:
                    a0, r0 = run_drv((drv2, argv0))
                    detail = r0.get("detail") or (f"killed by signal {-r0.get('crash', 0)}" if "crash" in r0 else detail)
                finally:
                    shutil.rmtree(d2, ignore_errors=True)
            ctx.violation(f"C19:cusparse:{'heap-or-stack-overflow' if 'overflow' in detail else 'memory-error'}", f"cusparse: the rendered Solve accesses memory outside its objects: {detail}", {"backend": "cusparse", "argv": argv0[:8], "choices": [], "crash": True})
            res = {"runs": 0, "success": 0, "fail": 0, "capped": False, "deepest_level": [0] * 8, "violations": 0}
        total += res["runs"]
        per_pass["cusparse:single-call"] = {"runs": res["runs"], "success": res["success"], "fail": res["fail"], "capped": res["capped"], "deepest_level": res["deepest_level"]}
        if res["violations"]:
            ctx.violation(f"C19:cusparse:{classify(res['first_violation'])}", f"cusparse: choice sequence {res['choices']}: {res['first_violation']} ({res['violations']} of {res['runs']} executions)", {"backend": "cusparse", "argv": argv0[:8], "choices": res["choices"]})
    except StopIteration:
        pass
    finally:
        if d is not None:
            shutil.rmtree(d, ignore_errors=True)
    # odeint
    od = run_odeint(ctx)
    total += od["runs"]
    # the dense and sparse Solve/HandleError bodies are textually identical apart from solver set-up
    ctx.assumptions += [
        "the integrator is a scripted mock of y' = 1: CVode(tout) either succeeds (y += tout - t_cur, *tret = tout, returns 0 or a positive warning) or fails with flag f after progress p*(tout - t_cur) (*tret = time reached); CVodeReInit may fail where stated; so y - y0 is the integrated time",
        "SUCCESS => |y - y0 - dt| <= 1e-9*dt (the ladder recomputes dt as pow(10, log10(dt))) and the last answer was a success; FAIL <=> last answer a failure/failed re-init, with the 'y[0] =' line of the initial state in the error record; no CVode call after an unrecoverable flag; tout strictly increasing inside a level",
        "flags: recoverable -1..-4, reset -6, every other negative flag unrecoverable (alphabet: -1..-8 and -9, -11, -22, -27; thorough also -10); failure positions are restricted per pass (mode 1: steps {1,2,middle,last-1,last} of every level; mode 2: every step of one level, step 1 elsewhere; mode 3: step 1 of every level with the full flag alphabet); each pass is exhaustive for its alphabet unless 'capped' is reported",
        "the error record's fopen is routed to an in-memory stream by a forced include (harness build flag); the generated text is not edited",
        "python entry point (harness dense+py): the library is built with -DPYMODULE against a functional pybind11 stand-in and the driver calls PyWrapSolve; an exception counts as FAIL, a returned array as SUCCESS with that array as the final state - the same oracle over the same choice sequences",
        "cuSPARSE Solve: the CUDA runtime / cuSPARSE / cuSOLVER names are emulated on the host (device memory = heap), Fex/Jac/InitJac kernels are link-time stubs; only the Solve control flow is exercised",
    ]
    capped = [k for k, v in per_pass.items() if v["capped"]]
    return {
        "evaluations": total,
        "distinct_nontrivial": total,
        "rule": "every sequence of integrator outcomes within the pass alphabets (success / fail(flag, progress) per CVode call at the offered positions, ok/fail per CVodeReInit), explored depth-first with prefix replay inside the compiled harness; every execution is a distinct choice sequence and runs the real rendered Solve/HandleError to completion",
        "samples": samples + od["samples"],
        "passes": per_pass,
        "capped_passes": capped,
        "odeint": od["summary"],
        "backends_compiled": compiled + ["rosenbrock4"],
        "exhaustive": not capped,
    }


def run_odeint(ctx):
    d, drv, err = build_harness(ctx.scratch, "rosenbrock4")
    if drv is None:
        raise HarnessError(f"C19 odeint harness does not compile: {err}")
    try:
        p = subprocess.run([str(drv)], capture_output=True, text=True, timeout=600, cwd=str(d))
        if p.returncode != 0:
            raise HarnessError(f"odeint driver failed: {p.stderr[-500:]}")
        res = json.loads(p.stdout.strip().splitlines()[-1])
        for v in res["violations"]:
            ctx.violation(f"C19:odeint:{v['kind']}", f"odeint mxsteps={v['mxsteps']} steps={v['steps']} throw_at={v['throw_at']}: {v['what']}", {"backend": "rosenbrock4", **v})
        return {"runs": res["runs"], "samples": [{"backend": "rosenbrock4", "mxsteps": 5, "steps": 7}], "summary": {k: res[k] for k in ("runs", "success", "fail", "boundary_accepted")}}
    finally:
        shutil.rmtree(d, ignore_errors=True)


def replay(ctx, case):
    if case.get("backend") == "rosenbrock4":
        run_odeint(ctx)
        return
    if case.get("crash"):
        d, drv, err = build_harness(ctx.scratch, case["backend"].split("+")[0], thermal=case["backend"].endswith("+thermal"), asan=True, pyentry=case["backend"].endswith("+py"))
        if drv is None:
            raise HarnessError(err)
        try:
            a0, r0 = run_drv((drv, list(case["argv"][:8]) + [40_000_000]))
        finally:
            shutil.rmtree(d, ignore_errors=True)
        if "crash" in r0:
            ctx.violation(f"C19:{case['backend']}:{'heap-or-stack-overflow' if 'overflow' in r0.get('detail', '') else 'memory-error'}", f"replay: {r0.get('detail')}", case)
        return
    d, drv, err = build_harness(ctx.scratch, case["backend"].split("+")[0], thermal=case["backend"].endswith("+thermal"), pyentry=case["backend"].endswith("+py"))
    if drv is None:
        raise HarnessError(err)
    try:
        argv = list(case["argv"][:7]) + [csv(case["choices"]), 1, "replay"]
        p = subprocess.run([str(drv)] + [str(a) for a in argv], capture_output=True, text=True, timeout=600, cwd=str(d))
        if p.returncode == 3:
            raise HarnessError("replay is not deterministic")
        res = json.loads(p.stdout.strip().splitlines()[-1])
        if not res["replay_ok"]:
            ctx.violation(f"C19:{case['backend']}:{classify(res['violation'])}", f"replay of {case['choices']}: {res['violation']}", case)
    finally:
        shutil.rmtree(d, ignore_errors=True)
