"""C11 - grain-surface rate coefficients follow the selected dust model.
Deciding evaluation: rendered EvalRates compiled with g++ and compared with an
independent transcription of the documented model formulae."""
from __future__ import annotations

import math
import re
import shutil
import tempfile
from pathlib import Path

from ..core.runner import HarnessError, REPO, guarded
from ..ref import formats as F
from ..ref import grainlaws as G
from ..ref.ratelaws import same
from . import c05
from .odecommon import expected_aliases

LEVEL = "exploration"

# species data by construction: name -> (mass number, charge)
GAS = {"H": (1, 0), "H2": (2, 0), "O": (16, 0), "OH": (17, 0), "CO": (28, 0), "H2O": (18, 0), "CH3OH": (32, 0), "HCO": (29, 0), "HCO+": (29, 1), "CO2": (44, 0), "H3O+": (19, 1), "OH-": (17, -1), "C+": (12, 1), "C": (12, 0), "D": (2, 0), "DCO": (30, 0), "OD": (18, 0)}
EB_RATE12 = {"H": 600.0, "H2": 430.0, "O": 800.0, "OH": 2850.0, "CO": 1150.0, "H2O": 4800.0, "CH3OH": 4930.0, "HCO": 1600.0, "CO2": 2990.0}
NO_EB = "C2H5C2H5O"  # an ice species without RATE12 entry (checked against the data file)

MODELS = ["hh93", "hh93i", "rr07", "rr07x"]
LIGHT = {"H", "H2"}


def read_rate12():
    out = {}
    for ln in (REPO / "naunet" / "chemistrydata" / "rate12_binding_energy.dat").read_text(errors="replace").splitlines():
        if ln.startswith("#") or not ln.strip():
            continue
        parts = ln.split()
        out[parts[0]] = float(parts[1])
    return out


def spdata(gasname, user_eb, user_y, pre):
    A, q = GAS[gasname] if gasname in GAS else (None, 0)
    ice = pre + gasname
    eb = user_eb.get(ice) or EB_RATE12.get(gasname)
    return {"A": float(A), "charge": q, "eb": eb, "yield": user_y.get(ice, 0.0)}


def reactions_for(path, model, variant, tier="quick"):
    """-> list of dict(process, species (gas names), alpha, payload)   payload: line or API args"""
    pre = "G" if path == "leeds" else "#"
    R = []
    gasses = ["H", "H2", "CO", "H2O", "CH3OH"] + (["O", "OH", "HCO", "CO2"] if tier != "quick" else [])
    al = [1.0, 0.5]

    def add(process, gas, alpha, r, p, code, marker=None, beta=0.0):
        R.append({"process": process, "species": gas, "alpha": alpha, "r": r, "p": p, "code": code, "marker": marker, "beta": beta})

    if path == "leeds":
        for i, g in enumerate(gasses):
            add("freeze", [g], al[i % 2], [g], [pre + g], 7)
            add("thermal", [g], 1.0, [pre + g], [g], 8)
            add("cosmicray", [g], 1.0, [pre + g], [g], 9)
            add("photon", [g], 1.0, [pre + g], [g], 10)
        add("freeze", ["HCO+"], 1.0, ["HCO+"], [pre + "HCO"], 7)
        add("freeze", ["OH-"], 0.5, ["OH-"], [pre + "OH"], 7)
        for a in (0.0, 1000.0):
            add("surface", ["H", "H"], a, [pre + "H", pre + "H"], [pre + "H2"], 13)
            add("surface", ["H", "CO"], a, [pre + "H", pre + "CO"], [pre + "HCO"], 13)
            add("surface", ["CO", "H"], a, [pre + "CO", pre + "H"], [pre + "HCO"], 13)
            add("surface", ["CO", "O"], a, [pre + "CO", pre + "O"], [pre + "CO2"], 13)
            add("surface", ["H2", "O"], a, [pre + "H2", pre + "O"], [pre + "H2O"], 13)
            add("reactive", ["H", "O"], a, [pre + "H", pre + "O"], ["OH"], 14)
            add("reactive", ["O", "OH"], a, [pre + "O", pre + "OH"], ["H2O"], 14)
            if variant.get("user"):
                # mass number 2 like H2, but not one of the tunnelling species of the model
                add("surface", ["D", "CO"], a, [pre + "D", pre + "CO"], [pre + "DCO"], 13)
                add("reactive", ["D", "O"], a, [pre + "D", pre + "O"], ["OD"], 14)
            if tier != "quick":
                add("surface", ["O", "H"], a, [pre + "O", pre + "H"], [pre + "OH"], 13)
                add("surface", ["O", "H2"], a, [pre + "O", pre + "H2"], [pre + "H2O"], 13)
                add("surface", ["H2", "H2"], a, [pre + "H2", pre + "H2"], [pre + "H2", pre + "H2"], 13)
                add("surface", ["OH", "CO"], a, [pre + "OH", pre + "CO"], [pre + "CO2", pre + "H"], 13)
                add("reactive", ["OH", "H"], a, [pre + "OH", pre + "H"], ["H2O"], 14)
                add("reactive", ["CO", "H"], a, [pre + "CO", pre + "H"], ["HCO"], 14)
        if variant.get("grainspec"):
            add("recombination", ["HCO+"], 1.0, ["HCO+", "GRAIN-"], ["HCO", "GRAIN0"], 6)
            add("recombination", ["H3O+"], 0.5, ["H3O+", "GRAIN-"], ["H2O", "H", "GRAIN0"], 6)
            add("ecapture", [], 1.0, ["e-", "GRAIN0"], ["GRAIN-"], 20)
            # the order of the two reactants is free: grain first
            add("recombination", ["C+"], 1.0, ["GRAIN-", "C+"], ["C", "GRAIN0"], 6)
            add("ecapture", [], 0.5, ["GRAIN0", "e-"], ["GRAIN-"], 20)
    elif path == "uclchem":
        for i, g in enumerate(["CO", "H2O", "CH3OH", "H2"]):
            add("freeze", [g], al[i % 2], [g], [pre + g], None, "FREEZE")
            add("thermal", [g], 1.0, [pre + g], [g], None, "THERM")
            add("cosmicray", [g], 1.0, [pre + g], [g], None, "DESCR")
            add("photon", [g], 1.0, [pre + g], [g], None, "DEUVCR")
            add("h2", [g], 1.0, [pre + g], [g], None, "DESOH2")
        add("freeze", ["HCO+"], 1.0, ["HCO+"], [pre + "CO", "H"], None, "FREEZE", 1.0)
        add("freeze", ["OH-"], 0.5, ["OH-"], [pre + "OH"], None, "FREEZE")
        if model.startswith("rr07"):
            add("freeze", ["E-"], 1.0, ["E-"], [], None, "FREEZE")
    elif path == "api":
        codes = {"freeze": 200, "thermal": 201, "cosmicray": 202, "photon": 203, "reactive": 204, "h2": 210, "recombination": 220, "ecapture": 221, "surface": 300}
        for i, g in enumerate(gasses):
            add("freeze", [g], al[i % 2], [g], [pre + g], codes["freeze"])
            add("thermal", [g], 1.0, [pre + g], [g], codes["thermal"])
            add("cosmicray", [g], 1.0, [pre + g], [g], codes["cosmicray"])
            add("photon", [g], 1.0, [pre + g], [g], codes["photon"])
            add("h2", [g], 1.0, [pre + g], [g], codes["h2"])
        add("freeze", ["HCO+"], 1.0, ["HCO+"], [pre + "HCO"], codes["freeze"])
        add("freeze", ["OH-"], 0.5, ["OH-"], [pre + "OH"], codes["freeze"])
        if model.startswith("rr07"):
            add("freeze", ["e-"], 1.0, ["e-"], [], codes["freeze"])
        for a in (0.0, 1000.0):
            add("surface", ["H", "CO"], a, [pre + "H", pre + "CO"], [pre + "HCO"], codes["surface"])
            add("surface", ["CO", "O"], a, [pre + "CO", pre + "O"], [pre + "CO2"], codes["surface"])
            add("reactive", ["H", "O"], a, [pre + "H", pre + "O"], ["OH"], codes["reactive"])
            if variant.get("user"):
                add("surface", ["D", "CO"], a, [pre + "D", pre + "CO"], [pre + "DCO"], codes["surface"])
                add("reactive", ["D", "O"], a, [pre + "D", pre + "O"], ["OD"], codes["reactive"])
            if tier != "quick":
                add("surface", ["CO", "H"], a, [pre + "CO", pre + "H"], [pre + "HCO"], codes["surface"])
                add("surface", ["O", "H2"], a, [pre + "O", pre + "H2"], [pre + "H2O"], codes["surface"])
                add("surface", ["H", "H"], a, [pre + "H", pre + "H"], [pre + "H2"], codes["surface"])
                add("reactive", ["O", "H"], a, [pre + "O", pre + "H"], ["OH"], codes["reactive"])
        if variant.get("grainspec"):
            add("recombination", ["HCO+"], 1.0, ["HCO+", "GRAIN-"], ["HCO", "GRAIN0"], codes["recombination"])
            add("ecapture", [], 1.0, ["e-", "GRAIN0"], ["GRAIN-"], codes["ecapture"])
            add("recombination", ["C+"], 1.0, ["GRAIN-", "C+"], ["C", "GRAIN0"], codes["recombination"])
            add("ecapture", [], 0.5, ["GRAIN0", "e-"], ["GRAIN-"], codes["ecapture"])
    return R


PARAMS = {
    # my own numbers for every NaunetData field (distinct, so a swapped symbol shows)
    "nH": 2.0e4, "zeta": 2.6e-17, "zeta_cr": 2.6e-17, "zeta_xr": 0.0, "Av": 2.0, "omega": 0.5, "G0": 3.0,
    "rG": 1.1e-5, "gdens": 7.0e-9, "sites": 1.4e15, "barr": 1.6e-8, "hop": 0.35, "nMono": 2.5,
    "opt_frz": 0.9, "opt_thd": 0.8, "opt_crd": 0.7, "duty": 3.0e-19, "Tcr": 65.0, "opt_uvd": 0.6, "opt_rcd": 0.55, "branch": 2e-2,
    "fr": 0.95, "opt_h2d": 0.45, "eb_crd": 1.3e3, "eb_uvd": 4.85e3, "eb_h2d": 1.0e3, "crdeseff": 1.1e5, "uvcreff": 1.2e-3, "h2deseff": 1.3e-2,
    "mu": -1.0, "gamma": -1.0,
}
TEMPS = [(10.0, 12.0), (25.0, 40.0)]  # (Tgas, Tdust)


def run_combo(arg):
    path, model, variant, tier = arg
    from ..harness.render import render, reset_globals, scratch, quiet
    from ..harness import ratesrun as RR
    from ..ctext.stmts import read_macros

    reset_globals()
    from naunet import chemistrydata
    from naunet.network import Network
    from naunet.reactions.reaction import Reaction
    from naunet.reactiontype import ReactionType
    from naunet.species import Species

    label = f"{path}|{model}|{'+'.join(k for k,v in variant.items() if v) or 'plain'}"
    case = {"path": path, "model": model, "variant": variant}
    viols = []
    pre = "G" if path == "leeds" else "#"
    # (deuterium has no RATE12 binding energy: its ice species only exist with a user table)
    user_eb = {pre + "CO": 1234.0, pre + "D": 650.0, pre + "DCO": 1700.0} if variant.get("user") else {}
    user_y = {pre + "CO": 2.5e-3, pre + "H2O": 4e-3} if variant.get("user") else {}
    if user_eb and variant.get("own"):
        # the values are set on the species objects themselves (the setters of Species); the user tables name the same
        # species with OTHER values: a species' own attribute is the more specific statement and is what must be used
        chemistrydata.update_binding_energy({k: v + 500.0 for k, v in user_eb.items()})
        chemistrydata.update_photon_yield({k: 3.0 * v for k, v in user_y.items()})
    elif user_eb:
        chemistrydata.update_binding_energy(dict(user_eb))
        chemistrydata.update_photon_yield(dict(user_y))
    table = read_rate12()
    for k, v in EB_RATE12.items():
        if table.get(k) != v:
            raise HarnessError(f"own RATE12 excerpt disagrees with the data file for {k}: {v} vs {table.get(k)}")
    if NO_EB in table:
        raise HarnessError(f"{NO_EB} unexpectedly has a RATE12 entry")
    descs = reactions_for(path, model, variant, tier)
    temps = TEMPS if tier == "quick" else TEMPS + [(8.0, 8.0), (15.0, 9.0), (100.0, 50.0)]
    if path == "uclchem":
        temps = [t for t in temps if t[0] < 30.0]  # UCLCHEM switches freeze-out off above 30 K (window judged by C06)
    tmp = Path(tempfile.mkdtemp(dir=scratch()))
    nval = 0
    try:
        kw = {"grain_model": model}
        if path == "leeds":
            kw["species_kwargs"] = {"surface_prefix": "G"}
        kw["required_species"] = ["H", "H2", "CO"]
        with quiet():
            if path == "api":
                reacs = []
                def own(names):
                    if not variant.get("own"):
                        return list(names)
                    out_ = []
                    for nm in names:
                        sp = Species(nm)
                        if nm in user_eb:
                            sp.binding_energy = user_eb[nm]
                        if nm in user_y:
                            sp.photon_yield = user_y[nm]
                        out_.append(sp)
                    return out_

                for i, d in enumerate(descs):
                    reacs.append(Reaction(own(d["r"]), own(d["p"]), 1.0, 99999.0, d["alpha"], d["beta"], 0.0, ReactionType(d["code"]), i + 1))
                net = Network(reacs, **kw)
            else:
                lines = []
                for i, d in enumerate(descs):
                    if path == "leeds":
                        lines.append(c05.encode("leeds", d["code"], None, d["r"], d["p"], d["alpha"], d["beta"], 0.0, i + 1, 1, 99999))
                    else:
                        lines.append(F.enc_uclchem(F.AReaction(d["r"], d["p"], d["alpha"], d["beta"], 0.0, 1.0, 99999.0, i + 1, None, d["marker"])))
                f = tmp / f"p.{path}"
                f.write_text("\n".join(lines) + "\n")
                net = Network(filelist=str(f), fileformats=path, **kw)
                if variant.get("own"):
                    for r_ in net.reaction_list:
                        for sp in list(r_.reactants) + list(r_.products):
                            if sp.name in user_eb:
                                sp.binding_energy = user_eb[sp.name]
                            if sp.name in user_y:
                                sp.photon_yield = user_y[sp.name]
        if len(net.reaction_list) != len(descs):
            raise HarnessError(f"{label}: {len(descs)} descriptors vs {len(net.reaction_list)} reactions")
        # refusal matrix: which reactions does the model refuse?
        grains = {g.group: g for g in net.grains}
        keep = []
        for d, r in zip(descs, net.reaction_list):
            impl = d["process"] in G.IMPLEMENTED[model]
            try:
                txt = r.rateexpr(grains.get(r.grain_group))
                refused = None
            except Exception as e:
                txt = None
                refused = type(e).__name__
            if not impl:
                nval += 1
                if refused is None:
                    viols.append((f"C11:not-refused:{model}:{d['process']}", f"{label}: {d['process']} is not implemented by {model} but a rate was produced: {str(txt)[:100]}", case))
                continue
            if refused is not None:
                d["refused_by_path"] = refused
                continue
            keep.append((d, r))
        # render the network that only holds the accepted reactions
        with quiet():
            net2 = Network([r for _, r in keep], **kw)
        files = render(net2, "dense", RR.RATE_TEMPLATES_CVODE)
        macros = read_macros(files["include/naunet_macros.h"])
        consts = {}
        for m in re.finditer(r"const\s+double\s+(\w+)\s*=\s*([-+0-9.eE]+)\s*;", files["src/naunet_constants.cpp"]):
            consts[m.group(1)] = float(m.group(2))
        # eb_<alias> constants must carry the reacting species' own binding energy
        for d, r in keep:
            for g in d["species"]:
                if g in ("e-", "E-") or GAS[g][1] != 0:
                    continue
                al = next(iter(expected_aliases("#" + g)))  # G<name>I
                key = f"eb_{al}"
                if key in consts:
                    exp = user_eb.get(pre + g) or EB_RATE12[g]
                    nval += 1
                    if consts[key] != exp:
                        viols.append((f"C11:eb-constant:{'user' if pre+g in user_eb else 'rate12'}", f"{label}: {key} = {consts[key]} but the binding energy of {pre+g} is {exp}", case))
        fields = [f for f, _ in RR.data_fields(files)]
        neq = macros.value("NEQUATIONS")
        names = {}
        for mname in macros.text:
            if mname.startswith("IDX_") and not mname.startswith("IDX_ELEM_") and mname != "IDX_TGAS":
                names[mname[4:]] = macros.value(mname)
        ice_slots = [s for a, s in names.items() if a.startswith("G") and not a.startswith("GRAIN")]
        grain_slots = [s for a, s in names.items() if a.startswith("GRAIN")]
        grid, yvals, plist = [], [], []
        # parameter variants: the base values, and - where the model gates a process by a binding-energy threshold -
        # thresholds placed exactly on each species' binding energy (the documented gates are inclusive) and one
        # representable step below / above it
        import math

        ebs = sorted({consts[k] for k in consts if k.startswith("eb_G")})
        thr_fields = [f for f in ("eb_crd", "eb_uvd", "eb_h2d") if f in fields]
        variants = [({}, tt, iz) for tt in temps for iz in (False, True)]
        if thr_fields:
            for e in ebs:
                for val in (e, math.nextafter(e, 0.0), math.nextafter(e, math.inf)):
                    variants.append(({f: val for f in thr_fields}, temps[0], False))
        # a mantle that exists (> 1e-30 per cm^3) but is negligible per hydrogen nucleus (<= 1e-30): the models gate on
        # the abundance, not on the density
        variants.append(({"nH": 1e10}, temps[0], "tiny"))
        for over, (tg, td), icezero in variants:
            if True:
                PARAMS_V = dict(PARAMS, **over)
                yv = [1e-6 * (i + 3) for i in range(neq)]
                if icezero == "tiny":
                    for s in ice_slots:
                        yv[s] = 2e-29
                elif icezero:
                    for s in ice_slots:
                        yv[s] = 0.0
                g = {k: v for k, v in PARAMS_V.items() if k in fields}
                g["Tgas"] = tg
                if "Tdust" in fields:
                    g["Tdust"] = td
                for fld in fields:
                    if fld not in g:
                        raise HarnessError(f"{label}: no harness value for NaunetData field {fld}")
                grid.append(g)
                yvals.append(yv)
                p = dict(PARAMS_V)
                p.update(Tgas=tg, Tdust=td if "Tdust" in fields else tg)
                p["zeta"] = PARAMS["zeta_cr"] if "zeta_cr" in fields else PARAMS["zeta"]
                p["zism"] = consts.get("zism", 1.3e-17)
                p["habing"] = consts.get("habing", 1e8)
                p["crphot"] = consts.get("crphot", 1e4)
                p["mant"] = sum(yv[s] for s in ice_slots)
                p["gdens"] = sum(yv[s] for s in grain_slots) if grain_slots and "gdens" not in fields else PARAMS["gdens"]
                p["yH"] = yv[names["HI"]] if "HI" in names else 0.0
                plist.append(p)
        res = RR.build_and_run(files, grid, yvals)
        if res.get("compile_error"):
            first = next((ln for ln in res["compile_error"].splitlines() if "error" in ln), "")
            mid = re.search(r"[‘'`]([^’']+)[’']", first)
            ident = re.sub(r"[^A-Za-z0-9_]", "", mid.group(1))[:40] if mid else "other"
            viols.append((f"C11:compile-error:{path}:{model}:{ident}", f"{label}: {first[:300]}", case))
            return label, nval, viols, [d["process"] + ":" + d.get("refused_by_path", "") for d in descs if d.get("refused_by_path")]
        if res.get("run_error"):
            raise HarnessError(res["run_error"])
        cst = {k: consts[k] for k in ("pi", "amu", "kerg", "hbar", "echarge", "meu")}
        for i, (d, r) in enumerate(keep):
            fn = d["process"]
            sps = []
            for g in d["species"]:
                if g in ("e-", "E-"):
                    sps.append({"electron": True, "A": 0.0, "charge": -1, "eb": None, "yield": 0.0})
                else:
                    sps.append(spdata(g, user_eb, user_y, pre))
            for gi, p in enumerate(plist):
                if model.startswith("hh93"):
                    if fn in ("surface", "reactive"):
                        # light = the species is atomic / molecular hydrogen on the surface
                        l1, l2 = d["species"][0] in LIGHT, d["species"][1] in LIGHT
                        exp = getattr(G, f"hh93_{fn}")(d["alpha"], sps[0], sps[1], cst, p, l1, l2)
                    elif fn == "ecapture":
                        exp = G.hh93_ecapture(d["alpha"], None, cst, p)
                    else:
                        exp = getattr(G, f"hh93_{fn}")(d["alpha"], sps[0], cst, p)
                else:
                    f = getattr(G, f"rr07x_{fn}", None) if fn == "thermal" else getattr(G, f"rr07_{fn}")
                    exp = f(d["alpha"], sps[0], cst, p)
                got = res["k"][gi][i]
                nval += 1
                if not same(got, exp, 1e-11):
                    sig = f"C11:value:{model}:{fn}:{path}"
                    if fn in ("surface", "reactive") and path != "leeds" and (d["species"][0] in LIGHT or d["species"][1] in LIGHT):
                        sig += ":light-partner"
                    viols.append((sig, f"{label}: {fn} of {d['species']} alpha={d['alpha']} at Tgas={p['Tgas']} mant={p['mant']:.3g}: compiled {got!r}, model formula {exp!r}", case))
                    break
        # missing binding energy must raise
        return label, nval, viols, [d["process"] + ":" + d.get("refused_by_path", "") for d in descs if d.get("refused_by_path")]
    finally:
        shutil.rmtree(tmp, ignore_errors=True)


def run_bundled_table(_):
    """every row of the bundled RATE12 binding-energy table (read here by an own reader: first two columns of every
    data line, whatever follows them) is the binding energy the ice species of that name reports - the end of the
    documented lookup order must know every species the table lists"""
    from ..harness.render import reset_globals, quiet

    reset_globals()
    from naunet.species import Species

    table = read_rate12()
    viols = []
    n = 0
    with quiet():
        for name, eb in table.items():
            try:
                sp = Species("#" + name)
            except Exception:
                continue  # a name outside the default element list: not judged
            n += 1
            try:
                got = sp.binding_energy
            except Exception as e:
                viols.append(("C11:bundled-table:row-unknown", f"rate12_binding_energy.dat lists {name} = {eb} K, but Species('#{name}').binding_energy raises {type(e).__name__}: {str(e)[:100]}", {"bundled_table": name}))
                break
            if got != eb:
                viols.append(("C11:bundled-table:row-value", f"rate12_binding_energy.dat lists {name} = {eb} K, Species('#{name}').binding_energy is {got}", {"bundled_table": name}))
                break
    return n, viols


def run_missing_eb(model):
    """an ice species without binding energy anywhere must raise, never render"""
    from ..harness.render import render, reset_globals, quiet
    from ..harness import ratesrun as RR

    reset_globals()
    from naunet.network import Network
    from naunet.reactions.reaction import Reaction
    from naunet.reactiontype import ReactionType

    with quiet():
        net = Network([Reaction(["#" + NO_EB], [NO_EB], 1.0, 99999.0, 1.0, 0.0, 0.0, ReactionType.GRAIN_DESORB_THERMAL if model != "rr07" else ReactionType.GRAIN_DESORB_COSMICRAY, 1)], grain_model=model)
    try:
        files = render(net, "dense", RR.RATE_TEMPLATES_CVODE)
    except Exception:
        return model, []
    return model, [(f"C11:missing-eb-not-refused:{model}", f"{model}: ice species #{NO_EB} has no binding energy anywhere but sources were rendered", {"missing_eb": model})]


def combos(tier):
    out = []
    for model in MODELS:
        for path in ("leeds", "uclchem", "api"):
            if path == "leeds" and model.startswith("rr07"):
                continue  # Walsh-format desorption types need zeta_cr etc.; still exercised through api
            for variant in ({}, {"user": True}, {"grainspec": True}, {"user": True, "grainspec": True}):
                if variant.get("grainspec") and path == "uclchem":
                    continue
                out.append((path, model, variant))
    # values set on the Species objects themselves while the user tables say something else (every entry path: set after reading for the file formats)
    for model in MODELS:
        out.append(("api", model, {"user": True, "own": True}))
        out.append(("uclchem", model, {"user": True, "own": True}))
        if not model.startswith("rr07"):
            out.append(("leeds", model, {"user": True, "own": True}))
    # Leeds with rr07 models as well: refusal matrix only matters there
    for model in ("rr07", "rr07x"):
        out.append(("leeds", model, {}))
    return out


def run(ctx):
    import multiprocessing as mp

    work = combos(ctx.tier)
    nval = 0
    refused_by_path = {}
    with mp.get_context("fork").Pool(ctx.workers, maxtasksperchild=1) as pool:
        for label, n, viols, rbp in pool.imap_unordered(guarded(run_combo), [w + (ctx.tier,) for w in work]):
            nval += n
            for r in rbp:
                refused_by_path[f"{label.split('|')[0]}|{label.split('|')[1]}|{r}"] = refused_by_path.get(f"{label.split('|')[0]}|{label.split('|')[1]}|{r}", 0) + 1
            ctx.absorb(viols)
        for model, viols in pool.imap_unordered(guarded(run_missing_eb), MODELS):
            nval += 1
            ctx.absorb(viols)
        for n, viols in pool.imap_unordered(guarded(run_bundled_table), [0]):
            nval += n
            ctx.absorb(viols)
    ctx.assumptions += [
        "model formulae: hh93/hh93i as implemented by Walsh et al. 2015, rr07/rr07x as UCLCHEM v1.3 (the sources the classes cite); numeric prefactors 4.57e4, 4.875e3, 1.64e-4, 16.71e-4, 3.02, 1.8 and the coverage/monolayer factors are taken on trust from those implementations",
        "species data (mass number from the composition, binding energy by the documented order user table > RATE12 table, yield user table > model default) are computed by the harness, not obtained from naunet",
        "physical constants are those the generated library declares; every NaunetData field is set to the harness's own value",
        "an implemented (model, process) pair that raises on a particular entry path (missing parameter symbol) is recorded as refused_by_path, not as a violation: the property only forbids producing a wrong rate",
    ]
    return {
        "evaluations": nval,
        "distinct_nontrivial": len(work),
        "rule": "process x dust model x species (differing in mass number / binding energy / yield) x entry path (Leeds line, UCLCHEM line, native API) x variants (user binding-energy/yield tables, grain species present); compiled EvalRates on (Tgas,Tdust) x (mantle present / mantle zero); the model x process matrix is enumerated completely for refusals",
        "samples": [f"{p}|{m}|{v}" for p, m, v in work[:5]],
        "combinations": len(work),
        "refused_by_entry_path": refused_by_path,
        "exhaustive": True,
    }


def replay(ctx, case):
    if "bundled_table" in case:
        ctx.absorb(run_bundled_table(0)[1])
        return
    if "missing_eb" in case:
        _, v = run_missing_eb(case["missing_eb"])
        ctx.absorb(v)
        return
    label, n, viols, _ = run_combo((case["path"], case["model"], case["variant"], "thorough"))
    ctx.absorb(viols)
