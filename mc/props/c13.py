"""C13 - rate and ODE modifiers change exactly what the user targeted (differential oracle)."""
from __future__ import annotations

import itertools
import shutil
import tempfile
from pathlib import Path

from ..core.runner import HarnessError, guarded
from ..ctext import poly as P
from ..ctext.odetext import NotC, read_ode
from . import odecommon as oc

LEVEL = "exploration"

BASE = [
    (["H", "H"], ["H2"], 100, -1.0, -1.0),
    (["H2", "CR"], ["H", "H"], 101, -1.0, -1.0),
    (["H", "e-"], ["H+", "e-", "e-"], 100, 10.0, 300.0),
    (["H+", "e-"], ["H"], 100, -1.0, -1.0),
]
INDEX_PATTERNS = {
    "distinct": [1, 2, 3, 4],
    "shared": [7, 7, 9, 9],
    "unindexed": [-1, -1, -1, -1],
    "mixed": [-1, 5, 5, 6],
    "zero-based": [0, 1, 2, 3],
}
LONG = "1.0e-10*(1.0+2.5e-3*Tgas+8.0e-6*Tgas*Tgas+3.1e-9*Tgas*Tgas*Tgas+4.4e-12*Tgas*Tgas*Tgas*Tgas)"  # > 72 characters without a blank
VALUES = ["0.0", "1.0e-10*Tgas", "Tgas>10.0 ? 1.0 : 2.0", "2.5e-9 * sqrt(Tgas/300.0)", LONG, 0.0]  # the last one a number, not text (the bundled ism example switches a reaction off this way)
ODE_MODS = [
    {},
    {"H2": {"factors": ["f"], "reactants": [["H", "H"]]}},
    {"H": {"factors": ["-2.0 * f"], "reactants": [["H2"]]}},
    {"H2": {"factors": ["a+b", "-g"], "reactants": [["H", "H", "e-"], ["H2"]]}, "H+": {"factors": ["h"], "reactants": [["H", "e-"]]}},
    {"H": {"factors": ["2.0 * inject", "-f"], "reactants": [[], ["H2"]]}},  # a constant source term (no dependency) next to an ordinary one
    {"H2": {"factors": ["0.5*f*(1.0+2.5e-3*g+8.0e-6*g*g+3.1e-9*g*g*g+4.4e-12*g*g*g*g+5.5e-15*g*g*g*g*g)"], "reactants": [["H", "H"]]}},
]


def effective_indices(idxs):
    if all(i == -1 for i in idxs):
        return list(range(len(idxs)))
    return list(idxs)


def cases(tier):
    nreac = [3] if tier == "quick" else [2, 3, 4]
    for n in nreac:
        for pname, pat in INDEX_PATTERNS.items():
            idxs = pat[:n]
            eff = effective_indices(idxs)
            present = sorted({i for i in eff if i >= 0})
            universe = present + [42]
            for k in range(0, len(universe) + 1):
                for keys in itertools.combinations(universe, k):
                    for oi, om in enumerate(ODE_MODS):
                        present_species = {"H", "H2"} | ({"e-", "H+"} if n >= 3 else set())
                        used = set(om) | {d for v in om.values() for deps in v["reactants"] for d in deps}
                        if not used <= present_species:
                            continue  # a modifier naming a species outside the network is a user error
                        if tier == "quick" and (oi + len(keys)) % 2 == 1 and oi != 0:
                            continue
                        rm = {str(key): VALUES[(j + oi) % len(VALUES)] for j, key in enumerate(keys)}
                        if not rm and not om:
                            continue
                        yield {"n": n, "pattern": pname, "idxs": idxs, "rate_modifier": rm, "ode_modifier": om}


def build(case, with_mods=True, via="constructor"):
    from naunet.network import Network
    from naunet.reactions.reaction import Reaction
    from naunet.reactiontype import ReactionType

    reacs = []
    for (r, p, t, lo, hi), idx in zip(BASE[: case["n"]], case["idxs"]):
        reacs.append(Reaction(list(r), list(p), lo, hi, 1e-10, 0.5, 10.0, ReactionType(t), idx))
    kw = {}
    if with_mods:
        if case["rate_modifier"]:
            kw["rate_modifier"] = {int(k): v for k, v in case["rate_modifier"].items()}
        if case["ode_modifier"]:
            kw["ode_modifier"] = case["ode_modifier"]
    if via == "setter":
        # the same modifiers assigned to an existing network
        net = Network(reacs)
        if "rate_modifier" in kw:
            net.rate_modifier = kw["rate_modifier"]
        if "ode_modifier" in kw:
            net.ode_modifier = {k: {"factors": list(v["factors"]), "reactants": [list(x) for x in v["reactants"]]} for k, v in kw["ode_modifier"].items()}
        return net
    if via == "shared-table":
        # the caller keeps its tables and uses them for a second network, then changes entries (of its own tables and
        # through the second network's accessors): the first network targets what it was constructed with
        rm = dict(kw.get("rate_modifier", {}))
        om = dict(kw.get("ode_modifier", {}))
        net = Network(reacs, **({"rate_modifier": rm} if rm else {}), **({"ode_modifier": om} if om else {}))
        other = Network([Reaction(list(r), list(p), lo, hi, 1e-10, 0.5, 10.0, ReactionType(t), idx) for (r, p, t, lo, hi), idx in zip(BASE[: case["n"]], case["idxs"])],
                        **({"rate_modifier": rm} if rm else {}), **({"ode_modifier": om} if om else {}))
        for idx in set(effective_indices(case["idxs"])) | {42}:
            other.rate_modifier[idx] = "7.0e-7"
            rm[idx] = "9.0e-9"
        other.ode_modifier["H"] = {"factors": ["zz"], "reactants": [["H2"]]}
        om["H2"] = {"factors": ["ww"], "reactants": [["H"]]}
        return net
    if via == "reassign":
        # fetch the table, change it, hand it back through the setter (also: hand back the very object the getter returned)
        net = Network(reacs)
        t = net.rate_modifier
        t.update(kw.get("rate_modifier", {}))
        net.rate_modifier = t
        o = net.ode_modifier
        o.update({k: {"factors": list(v["factors"]), "reactants": [list(x) for x in v["reactants"]]} for k, v in kw.get("ode_modifier", {}).items()})
        net.ode_modifier = o
        net.rate_modifier = net.rate_modifier
        net.ode_modifier = net.ode_modifier
        return net
    if via == "inplace":
        # ... and entered one by one into the tables the accessors hand out
        net = Network(reacs)
        for k, v in kw.get("rate_modifier", {}).items():
            net.rate_modifier[k] = v
        for k, v in kw.get("ode_modifier", {}).items():
            net.ode_modifier[k] = {"factors": list(v["factors"]), "reactants": [list(x) for x in v["reactants"]]}
        return net
    return Network(reacs, **kw)


TEMPL = ["include/naunet_macros.h.j2", "src/naunet_fex.cpp.j2", "src/naunet_jac.cpp.j2", "src/naunet_rates.cpp.j2"]


def observe(files):
    from ..harness import ratesrun as RR

    stmts, decls, macros = RR.read_rate_statements(files)
    ot = read_ode(files, "dense")
    return [(s["index"], s["guard"], " ".join(s["expr"].split())) for s in stmts], ot


def judge(case, base_obs, mod_obs, label):
    viols = []
    s0, ot0 = base_obs
    s1, ot1 = mod_obs
    eff = effective_indices(case["idxs"])
    keys = {int(k): v for k, v in case["rate_modifier"].items()}
    if len(s0) != len(s1):
        viols.append(("C13:rate-count", f"{label}: {len(s0)} rate statements without, {len(s1)} with modifier"))
        return viols
    # the slot a statement writes is the reaction's position, with or without modifiers (k has NREACTIONS slots)
    nre = ot1.macros.value("NREACTIONS")
    slots1 = [i1 for (i1, _g, _e) in s1]
    if slots1 != list(range(len(s1))) or len(s1) != nre:
        viols.append((f"C13:rate-slot:{case['pattern']}", f"{label}: with modifiers the rate statements write k{slots1} (NREACTIONS={nre}); one statement per reaction, in position order, is expected"))
        return viols
    for i, ((i0, g0, e0), (i1, g1, e1)) in enumerate(zip(s0, s1)):
        if eff[i] in keys:
            want = " ".join(str(keys[eff[i]]).split())
            if e1 != want or g1 is not None:
                viols.append((f"C13:rate-not-replaced:{case['pattern']}", f"{label}: reaction {i} (index {eff[i]}) should have k = {want!r}, rendered guard={g1!r} expr={e1!r}"))
        else:
            if (g0, e0) != (g1, e1):
                viols.append((f"C13:rate-collateral:{case['pattern']}", f"{label}: reaction {i} (index {eff[i]}) is not targeted by keys {sorted(keys)} but changed from {e0!r} to {e1!r}"))
    # ODE modifier: difference of the right-hand sides
    om = case["ode_modifier"]
    slots, problems = oc.slot_map(["H", "H2", "e-", "H+"][: 4 if case["n"] > 1 else 2], ot1.macros)
    expected = {}
    for tgt, spec in om.items():
        for fact, deps in zip(spec["factors"], spec["reactants"]):
            from ..ctext.cexpr import parse_expr

            term = P.to_poly(parse_expr(f"({fact})"), ot1.macros.as_dict())
            for d in deps:
                term = P.mul(term, P.sym(f"y:{slots[oc.canon(d)]}"))
            sl = slots[oc.canon(tgt)]
            expected[sl] = P.add(expected.get(sl, {}), term)
    for sl in set(ot0.ydot) | set(ot1.ydot):
        diff = P.add(ot1.ydot.get(sl, {}), ot0.ydot.get(sl, {}), -1)
        want = expected.get(sl, {})
        if diff != want:
            kind = "missing-or-wrong-term" if want else "collateral"
            viols.append((f"C13:ode-{kind}", f"{label}: ydot[{sl}] changed by {P.show(diff)}, modifier prescribes {P.show(want)}"))
    return viols


def run_case(case):
    from ..harness.render import render, reset_globals, quiet, scratch

    reset_globals()
    label = f"{case['pattern']}{case['idxs']} rm={case['rate_modifier']} om={list(case['ode_modifier'])}"
    viols = []
    try:
        with quiet():
            f0 = render(build(case, False), "dense", TEMPL)
            f1 = render(build(case, True), "dense", TEMPL)
            f2 = render(build(case, True, "setter"), "dense", TEMPL)
            f3 = render(build(case, True, "inplace"), "dense", TEMPL)
            f4 = render(build(case, True, "shared-table"), "dense", TEMPL)
            f5 = render(build(case, True, "reassign"), "dense", TEMPL)
        o0 = observe(f0)
        o1 = observe(f1)
    except NotC as e:
        return 1, [(f"C13:not-c", f"{label}: {e.stmt[:160]} ({e.why})", case)]
    except HarnessError:
        raise
    except Exception as e:
        return 1, [(f"C13:render-error:{type(e).__name__}", f"{label}: {e!r}", case)]
    for sig, what in judge(case, o0, o1, label):
        viols.append((sig, what, case))
    if f2 != f1:
        diff = sorted(k for k in f1 if f1[k] != f2.get(k))
        viols.append((f"C13:setter-differs", f"{label}: the modifiers assigned through the setters render {diff} differently from the same modifiers given to the constructor", case))
    if f3 != f1:
        diff = sorted(k for k in f1 if f1[k] != f3.get(k))
        viols.append((f"C13:inplace-differs", f"{label}: the modifiers entered into net.rate_modifier / net.ode_modifier in place render {diff} differently from the same modifiers given to the constructor", case))
    if f5 != f1:
        diff = sorted(k for k in f1 if f1[k] != f5.get(k))
        viols.append((f"C13:reassign-differs", f"{label}: the tables were fetched through the accessors, filled and assigned back through the setters (the object the getter returned): the network renders {diff} differently from one given the tables at construction", case))
    if f4 != f1:
        diff = sorted(k for k in f1 if f1[k] != f4.get(k))
        viols.append((f"C13:shared-table-differs", f"{label}: a second network was built from the same modifier tables and entries were then changed (in the caller's tables and through the second network): the first network renders {diff} differently from a network given the tables alone", case))
    return 1, viols


def run_removal(case):
    """A modifier is addressed by the reaction's index, not by where the reaction stands in the list: after removing
    any one reaction (by position, by a one-element list, by instance) the network must render exactly like a network
    built from the remaining reactions with the same modifiers."""
    from ..harness.render import render, reset_globals, quiet
    from naunet.network import Network
    from naunet.reactions.reaction import Reaction
    from naunet.reactiontype import ReactionType

    reset_globals()
    label = f"{case['pattern']}{case['idxs']} rm={case['rate_modifier']} om={list(case['ode_modifier'])}"
    viols = []
    n = 0
    for pos in range(case["n"]):
        for how in ("position", "list", "instance"):
            sub = dict(case, removed=pos, how=how)
            try:
                with quiet():
                    net = build(case, True)
                    victim = net.reaction_list[pos]
                    net.remove_reaction(pos if how == "position" else [pos] if how == "list" else victim)
                    got = render(net, "dense", TEMPL)
                    reacs = []
                    for j, ((r, p_, t, lo, hi), idx) in enumerate(zip(BASE[: case["n"]], case["idxs"])):
                        if j != pos:
                            reacs.append(Reaction(list(r), list(p_), lo, hi, 1e-10, 0.5, 10.0, ReactionType(t), idx))
                    kw = {}
                    if case["rate_modifier"]:
                        kw["rate_modifier"] = {int(k): v for k, v in case["rate_modifier"].items()}
                    if case["ode_modifier"]:
                        kw["ode_modifier"] = case["ode_modifier"]
                    want = render(Network(reacs, **kw), "dense", TEMPL)
            except HarnessError:
                raise
            except Exception as e:
                viols.append((f"C13:after-removal:raises:{type(e).__name__}", f"{label}, reaction {pos} removed by {how}: {e!r}", sub))
                continue
            n += 1
            if got != want:
                diff = sorted(k for k in want if want[k] != got.get(k))
                viols.append((f"C13:after-removal:{how}", f"{label}: after remove_reaction of the reaction at position {pos} (by {how}) the network renders {diff} differently from a network built from the remaining reactions with the same modifiers", sub))
    return n, viols


def same_obs(a, b):
    return a[0] == b[0] and a[1].ydot == b[1].ydot and a[1].jac == b[1].jac


def run_paths(case):
    """API vs export->render vs init->render : fresh process per case"""
    from ..harness.render import render, reset_globals, quiet, scratch
    from ..harness.cli import run_command

    reset_globals()
    label = f"{case['pattern']}{case['idxs']} rm={case['rate_modifier']} om={list(case['ode_modifier'])}"
    viols = []
    n = 0
    out = Path(tempfile.mkdtemp(dir=scratch()))
    try:
        with quiet():
            api_files = render(build(case, True), "dense", TEMPL)
        try:
            api = observe(api_files)
        except NotC as e:
            return 1, [(f"C13:not-c", f"{label}: {e.stmt[:160]} ({e.why})", case)]

        def load(d):
            fs = {}
            for rel in ("include/naunet_macros.h", "src/naunet_fex.cpp", "src/naunet_jac.cpp", "src/naunet_rates.cpp"):
                fs[rel] = (d / rel).read_text()
            return fs

        # ---- export path
        n += 1
        try:
            with quiet():
                build(case, True).export("proj", prefix=out, overwrite=True)
            exported = True
        except Exception as e:
            exported = False
            viols.append((f"C13:export-error:{type(e).__name__}:{'rate' if case['rate_modifier'] else 'ode'}-modifier", f"{label}: Network.export raised {e!r}", dict(case, path="export")))
        if exported:
            st, o, err, exc = run_command("render", "--force", out / "proj")
            if exc is not None:
                viols.append((f"C13:export-rerender-error:{type(exc).__name__}", f"{label}: render of the exported project raised {exc!r}", dict(case, path="export")))
            else:
                try:
                    got = observe(load(out / "proj"))
                except NotC as e:
                    got = None
                    viols.append((f"C13:not-c", f"{label}: sources rendered from the exported configuration: {e.stmt[:160]} ({e.why})", dict(case, path="export")))
                if got is not None and not same_obs(api, got):
                    viols.append((f"C13:export-path-differs", f"{label}: sources rendered from the exported configuration differ from the API rendering: rates {got[0]} vs {api[0]}", dict(case, path="export")))
        # ---- init path
        n += 1
        reset_globals()
        proj = out / "initproj"
        proj.mkdir()
        with quiet():
            build(case, False).write(proj / "reactions.naunet", "naunet")
        args = ["--name=p", "--description=d", "--loading=", "--elements=e,H,He", "--pseudo-elements=CR", "--element-replacement=", "--surface-prefix=#", "--bulk-prefix=@",
                "--allowed-species=", "--extra-species=", "--binding=", "--yield=", "--grain-symbol=GRAIN", "--grain-model=", "--network-files=reactions.naunet", "--file-formats=naunet",
                "--heating=", "--cooling=", "--shielding=", "--solver=cvode", "--device=cpu", "--method=dense", "--render", "--render-force"]
        for k, v in case["rate_modifier"].items():
            args.append(f"--rate-modifier={k}:{v}")
        for tgt, spec in case["ode_modifier"].items():
            for fact, deps in zip(spec["factors"], spec["reactants"]):
                args.append(f"--ode-modifier={tgt}:{fact},[{' '.join(deps)}]")
        import shlex

        st, o, err, exc = run_command("init", " ".join(shlex.quote(a) for a in args), proj)
        vals = [str(v) for v in case["rate_modifier"].values()]
        vclass = "value-with-colon" if any(":" in v for v in vals) else "value-with-comma" if any("," in v for v in vals) else "plain"
        if exc is not None:
            viols.append((f"C13:init-error:{type(exc).__name__}:{vclass}", f"{label}: init raised {exc!r}", dict(case, path="init")))
        elif not (proj / "src" / "naunet_rates.cpp").exists():
            viols.append((f"C13:init-no-sources:{vclass}", f"{label}: init --render produced no sources (status {st}) {err[:200]}", dict(case, path="init")))
        else:
            try:
                got = observe(load(proj))
            except NotC as e:
                got = None
                viols.append((f"C13:not-c", f"{label}: sources rendered through init: {e.stmt[:160]} ({e.why})", dict(case, path="init")))
            # the elements given to init differ from the API defaults only in species that do not occur
            if got is not None and not same_obs(api, got):
                diffs = [(a, b) for a, b in zip(api[0], got[0]) if a != b]
                viols.append((f"C13:init-path-differs:{vclass}", f"{label}: sources rendered through init differ from the API rendering: {diffs[:2]}", dict(case, path="init")))
        return n, viols
    finally:
        shutil.rmtree(out, ignore_errors=True)


def run(ctx):
    import multiprocessing as mp

    cs = list(cases(ctx.tier))
    n = 0
    for k, viols in ctx.pmap(run_case, cs, chunksize=4):
        n += k
        ctx.absorb(viols)
    # removal histories: cases with at least one rate-modifier key, every position x three ways of naming the reaction
    rc = [c for c in cs if c["rate_modifier"] and not c["ode_modifier"]]
    if ctx.tier == "quick":
        rc = rc[::2]
    nrem = 0
    for k, viols in ctx.pmap(run_removal, rc, chunksize=2):
        nrem += k
        ctx.absorb(viols)
    n += nrem
    step = 9 if ctx.tier == "quick" else 3
    pc = cs[::step]
    npaths = 0
    with mp.get_context("fork").Pool(ctx.workers, maxtasksperchild=1) as pool:
        for k, viols in pool.imap_unordered(guarded(run_paths), pc):
            npaths += k
            ctx.absorb(viols)
    ctx.assumptions += [
        "differential oracle: the same network is rendered with and without the modifier set; rate statements may differ exactly at reactions whose (effective) index is a key, ydot polynomials exactly by factor x product of listed abundances on the named species",
        "effective index of an unindexed network (all -1) = position, as TemplateLoader.render re-indexes it; a key matching no reaction must change nothing",
        "removal clause: after remove_reaction (position / list / instance) of any one reaction the rendering equals that of a network built from the remaining reactions with the same modifiers",
        "entry paths: API vs Network.export -> `naunet render` vs `naunet init --render` (fresh process per case); rate text, ydot and Jacobian polynomials must be identical",
    ]
    return {
        "evaluations": n + npaths,
        "distinct_nontrivial": len(cs),
        "rule": "networks of 2-4 reactions x index patterns (distinct, shared, unindexed, mixed, zero-based) x every subset of (present indices + one absent index) as rate-modifier keys x 4 ODE-modifier shapes (1-3 dependencies, signs, sums); a slice of the cases additionally goes through the export and init configuration paths",
        "samples": cs[:: max(1, len(cs) // 5)][:5],
        "cases": len(cs),
        "configuration_path_runs": npaths,
        "exhaustive": True,
    }


def replay(ctx, case):
    if "removed" in case:
        base = {k: v for k, v in case.items() if k not in ("removed", "how")}
        ctx.absorb(run_removal(base)[1])
        return
    path = case.pop("path", None) if isinstance(case, dict) else None
    if path:
        n, v = run_paths(case)
    else:
        n, v = run_case(case)
    ctx.absorb(v)
