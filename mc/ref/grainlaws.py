"""Dust-model rate laws as plain functions.

hh93 / hh93i : Hasegawa & Herbst 1993 as implemented by Walsh et al. 2015 (the
               source the class cites); rr07 / rr07x : Roberts et al. 2007 as in
               UCLCHEM v1.3.  Numeric prefactors (4.57e4, 4.875e3, 1.64e-4, 16.71e-4,
               3.02, 1.8) are taken on trust from those implementations.
c  : physical constants (pi, amu, kerg, hbar, echarge, meu) - the values the generated
     library itself declares (read from the rendered naunet_constants.cpp)
p  : parameter values set by the harness (NaunetData fields) + derived mantle density
sp : species data computed by the harness *independently* (A from the composition,
     Eb and yield by the documented lookup order)
"""
from __future__ import annotations

import math


def _exp(x):
    try:
        return math.exp(x)
    except OverflowError:
        return math.inf


# ---------------------------------------------------------------- hh93
def hh93_derived(c, p):
    d = {}
    d["garea"] = (4.0 * c["pi"] * p["rG"] * p["rG"]) * p["gdens"]
    d["unisites"] = p["sites"] * (4 * c["pi"] * p["rG"] * p["rG"])
    d["densites"] = d["garea"] * p["sites"]
    d["freq"] = math.sqrt((2.0 * p["sites"] * c["kerg"]) / ((c["pi"] * c["pi"]) * c["amu"]))
    d["quan"] = -2.0 * (p["barr"] / c["hbar"]) * math.sqrt(2.0 * c["amu"] * c["kerg"])
    mant = p["mant"]
    if mant == 0.0:
        d["cov"] = 0.0
    else:
        layers = mant / (p["nMono"] * d["densites"])
        d["cov"] = min(layers / mant, 1.0 / mant)
    return d


def hh93_freeze(alpha, sp, c, p):
    return p["opt_frz"] * alpha * c["pi"] * p["rG"] ** 2 * p["gdens"] * math.sqrt(8.0 * c["kerg"] * p["Tgas"] / (c["pi"] * c["amu"] * sp["A"]))


def hh93_thermal(alpha, sp, c, p):
    d = hh93_derived(c, p)
    nu = math.sqrt(2.0 * p["sites"] * c["kerg"] * sp["eb"] / (c["pi"] ** 2 * c["amu"] * sp["A"]))
    return p["opt_thd"] * d["cov"] * p["nMono"] * d["densites"] * nu * _exp(-sp["eb"] / p["Tdust"])


def hh93_photon(alpha, sp, c, p):
    d = hh93_derived(c, p)
    flux = p["G0"] * p["habing"] * _exp(-p["Av"] * 3.02) + p["crphot"] * (p["zeta"] / p["zism"])
    y = sp["yield"] if sp["yield"] else 1e-3
    return p["opt_uvd"] * d["cov"] * flux * y * p["nMono"] * d["garea"]


def hh93_cosmicray(alpha, sp, c, p):
    d = hh93_derived(c, p)
    nu = math.sqrt(2.0 * p["sites"] * c["kerg"] * sp["eb"] / (c["pi"] ** 2 * c["amu"] * sp["A"]))
    return p["opt_crd"] * d["cov"] * p["duty"] * p["nMono"] * d["densites"] * (p["zeta"] / p["zism"]) * nu * _exp(-sp["eb"] / p["Tcr"])


def hh93_ecapture(alpha, sp, c, p):
    return c["pi"] * p["rG"] ** 2 * math.sqrt(8.0 * c["kerg"] * p["Tgas"] / c["pi"] / c["amu"] / c["meu"])


def hh93_recombination(alpha, sp, c, p):
    e2 = c["echarge"] ** 2
    v = math.sqrt(8.0 * c["kerg"] * p["Tgas"] / (c["pi"] * c["amu"] * sp["A"]))
    return (alpha * c["pi"] * p["rG"] ** 2 * p["gdens"] * v * (1.0 + e2 / p["rG"] / c["kerg"] / p["Tgas"])
            * (1.0 + math.sqrt(2.0 * e2 / (p["rG"] * c["kerg"] * p["Tgas"] + 2.0 * e2))))


def hh93_surface(alpha, sp1, sp2, c, p, light1, light2):
    """two-body surface reaction; lightN: species N is H or H2 (may tunnel)"""
    d = hh93_derived(c, p)

    def hop(s):
        f = d["freq"] * math.sqrt(s["eb"] / s["A"])
        th = f * _exp(-s["eb"] * p["hop"] / p["Tdust"]) / d["unisites"]
        qu = f * _exp(d["quan"] * math.sqrt(p["hop"] * s["A"] * s["eb"])) / d["unisites"]
        return th, qu

    ad, aq = hop(sp1)
    bd, bq = hop(sp2)
    kappa = _exp(-alpha / p["Tdust"])
    kquan = _exp(d["quan"] * math.sqrt(((sp1["A"] * sp2["A"]) / (sp1["A"] + sp2["A"])) * alpha))
    geo = (p["nMono"] * d["densites"]) ** 2 / p["gdens"]
    if light1 and light2:
        r = max(kappa, kquan) * (max(ad, aq) + max(bd, bq)) * geo
    elif light1:
        r = max(kappa, kquan) * (max(ad, aq) + bd) * geo
    elif light2:
        r = max(kappa, kquan) * (ad + max(bd, bq)) * geo
    else:
        r = kappa * (ad + bd) * geo
    return r * d["cov"] * d["cov"]


def hh93_reactive(alpha, sp1, sp2, c, p, light1, light2):
    return p["opt_rcd"] * p["branch"] * hh93_surface(alpha, sp1, sp2, c, p, light1, light2)


# ---------------------------------------------------------------- rr07
def rr07_derived(c, p):
    d = {}
    d["gxsec"] = (c["pi"] * p["rG"] * p["rG"]) * p["gdens"]
    d["garea"] = 4.0 * d["gxsec"]
    d["densites"] = d["garea"] * p["sites"]
    d["mantabund"] = p["mant"] / p["nH"]
    return d


def rr07_freeze(alpha, sp, c, p):
    d = rr07_derived(c, p)
    base = 4.57e4 * alpha * d["gxsec"] * p["fr"]
    cion = 1.0 + 16.71e-4 / (p["rG"] * p["Tgas"])
    if sp.get("electron"):
        return base * cion
    if sp["charge"] == 0:
        return base * math.sqrt(p["Tgas"] / sp["A"])
    return base * math.sqrt(p["Tgas"] / sp["A"]) * cion


def rr07_photon(alpha, sp, c, p):
    d = rr07_derived(c, p)
    if not d["mantabund"] > 1e-30:
        return 0.0
    if not p["eb_uvd"] >= sp["eb"]:
        return 0.0
    y = sp["yield"] if sp["yield"] else 0.1
    flux = (p["zeta"] / p["zism"]) + (p["G0"] / p["uvcreff"]) * _exp(-1.8 * p["Av"])
    return p["opt_uvd"] * 4.875e3 * d["gxsec"] * flux * y / p["mant"]


def rr07_cosmicray(alpha, sp, c, p):
    d = rr07_derived(c, p)
    if not d["mantabund"] > 1e-30:
        return 0.0
    if not p["eb_crd"] >= sp["eb"]:
        return 0.0
    return p["opt_crd"] * 4.0 * c["pi"] * p["crdeseff"] * (p["zeta"] / p["zism"]) * 1.64e-4 * d["gxsec"] / p["mant"]


def rr07_h2(alpha, sp, c, p):
    d = rr07_derived(c, p)
    if not d["mantabund"] > 1e-30:
        return 0.0
    if not p["eb_h2d"] >= sp["eb"]:
        return 0.0
    h2form = 1.0e-17 * math.sqrt(p["Tgas"]) * p["nH"]
    return p["opt_h2d"] * p["h2deseff"] * h2form * p["yH"] / p["mant"]


def rr07x_thermal(alpha, sp, c, p):
    d = rr07_derived(c, p)
    if not d["mantabund"] > 1e-30:
        return 0.0
    nu = math.sqrt(2.0 * p["sites"] * c["kerg"] * sp["eb"] / (c["pi"] ** 2 * c["amu"] * sp["A"]))
    return p["opt_thd"] * nu * 2.0 * d["densites"] * _exp(-sp["eb"] / p["Tdust"])


IMPLEMENTED = {
    "hh93": {"freeze", "thermal", "photon", "cosmicray", "ecapture", "recombination", "surface", "reactive"},
    "hh93i": {"freeze", "thermal", "photon", "cosmicray", "ecapture", "recombination", "surface", "reactive"},
    "rr07": {"freeze", "photon", "cosmicray", "h2"},
    "rr07x": {"freeze", "photon", "cosmicray", "h2", "thermal"},
}
