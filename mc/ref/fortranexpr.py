"""A small independent evaluator of Fortran arithmetic expressions (the KROME rate
language): precedence ** > * / > unary +- > binary + -, right-associative **,
integer vs real typing (integer division truncates, integer ** integer is integer).

Two switches produce the *wrong* semantics on purpose; they are only used to
classify a disagreement (never as the oracle):
  left_assoc_pow       a**b**c == (a**b)**c
  tight_signed_literal a leading signed literal binds tighter than ** (-2**2 == 4)
"""
from __future__ import annotations

import math
import re

_TOK = re.compile(
    r"""\s*(?:
      (?P<num>(?:\d+\.\d*|\.\d+|\d+)(?:[dDeE][+-]?\d+)?)
    | (?P<id>[A-Za-z_][A-Za-z0-9_]*)
    | (?P<op>\*\*|[-+*/(),])
    )""",
    re.X,
)


class FortranSyntaxError(Exception):
    pass


def tokenize(s):
    pos = 0
    out = []
    s = s.strip()
    while pos < len(s):
        m = _TOK.match(s, pos)
        if not m or m.end() == pos:
            raise FortranSyntaxError(f"bad character at {pos} in {s!r}")
        pos = m.end()
        k = m.lastgroup
        out.append((k, m.group(k)))
    out.append(("eof", ""))
    return out


ALL_REAL = [False]


def _num(text):
    t = text.lower().replace("d", "e")
    if re.fullmatch(r"\d+", t) and not ALL_REAL[0]:
        return ("i", int(t))
    return ("r", float(t))


def _f(v):
    return float(v[1])


INT_POW_USED = [0]
POW_REAL = [False]


def _pow(a, b):
    if a[0] == "i" and b[0] == "i" and not POW_REAL[0]:
        INT_POW_USED[0] += 1
        x, n = a[1], b[1]
        if n >= 0:
            if abs(x) > 1 and n * math.log2(abs(x)) > 62:
                raise OverflowError("integer overflow (undefined in Fortran)")
            return ("i", x**n)
        # integer ** negative integer: Fortran integer arithmetic (1/x**|n|, truncated)
        if x == 0:
            raise ZeroDivisionError
        d = x ** (-n)
        q = abs(1) // abs(d)
        return ("i", q if d > 0 else -q)
    x, y = _f(a), _f(b)
    try:
        if b[0] == "i":
            # real ** integer is defined for negative bases as repeated multiplication
            r = math.pow(x, y)
        else:
            r = math.pow(x, y)
    except OverflowError:
        r = math.inf
    except (ValueError, ZeroDivisionError):
        r = math.nan if not (x == 0 and y < 0) else math.inf
    if r == math.inf and x < 0 and float(y).is_integer() and int(y) % 2 == 1:
        r = -math.inf
    return ("r", r)


def _arith(op, a, b):
    if a[0] == "i" and b[0] == "i":
        x, y = a[1], b[1]
        if op == "+":
            return ("i", x + y)
        if op == "-":
            return ("i", x - y)
        if op == "*":
            if abs(x * y) > 2**62:
                raise OverflowError("integer overflow (undefined in Fortran)")
            return ("i", x * y)
        if op == "/":
            if y == 0:
                raise ZeroDivisionError
            q = abs(x) // abs(y)
            return ("i", q if (x >= 0) == (y >= 0) else -q)
    x, y = _f(a), _f(b)
    try:
        if op == "+":
            return ("r", x + y)
        if op == "-":
            return ("r", x - y)
        if op == "*":
            return ("r", x * y)
        if op == "/":
            if y == 0.0:
                if x == 0.0 or x != x:
                    return ("r", math.nan)
                return ("r", math.copysign(math.inf, x) * math.copysign(1.0, y))
            return ("r", x / y)
    except OverflowError:
        return ("r", math.inf)
    raise FortranSyntaxError(op)


_FUNCS = {"exp": math.exp, "log": math.log, "log10": math.log10, "sqrt": math.sqrt, "abs": abs, "dexp": math.exp, "dlog": math.log, "dsqrt": math.sqrt, "dlog10": math.log10, "dabs": abs}


class Evaluator:
    def __init__(self, text, env, arrays=None, left_assoc_pow=False, tight_signed_literal=False):
        self.toks = tokenize(text)
        self.i = 0
        self.env = env
        self.arrays = arrays or {}
        self.lap = left_assoc_pow
        self.tsl = tight_signed_literal

    def peek(self):
        return self.toks[self.i]

    def next(self):
        t = self.toks[self.i]
        self.i += 1
        return t

    def run(self):
        v = self.expr()
        if self.peek()[0] != "eof":
            raise FortranSyntaxError(f"trailing {self.peek()[1]!r}")
        return v

    def expr(self):
        sign = None
        if self.peek()[1] in ("+", "-"):
            # leading sign
            if self.tsl and self.toks[self.i + 1][0] == "num":
                s = self.next()[1]
                k, txt = self.next()
                v = _num(txt)
                v = (v[0], -v[1]) if s == "-" else v
                # continue as if the signed literal were a primary
                v = self.power_tail(v)
                v = self.term_tail(v)
            else:
                sign = self.next()[1]
                v = self.term()
                if sign == "-":
                    v = (v[0], -v[1])
        else:
            v = self.term()
        while self.peek()[1] in ("+", "-"):
            op = self.next()[1]
            r = self.term()
            v = _arith(op, v, r)
        return v

    def term(self):
        v = self.factor()
        return self.term_tail(v)

    def term_tail(self, v):
        while self.peek()[1] in ("*", "/"):
            op = self.next()[1]
            r = self.factor()
            v = _arith(op, v, r)
        return v

    def factor(self):
        v = self.primary()
        return self.power_tail(v)

    def power_tail(self, v):
        if self.lap:
            while self.peek()[1] == "**":
                self.next()
                r = self.primary()
                v = _pow(v, r)
            return v
        if self.peek()[1] == "**":
            self.next()
            r = self.factor()  # right associative
            v = _pow(v, r)
        return v

    def primary(self):
        k, t = self.next()
        if k == "num":
            return _num(t)
        if k == "id":
            if self.peek()[1] == "(":
                self.next()
                if t == "n":
                    k2, idx = self.next()
                    if k2 != "id":
                        raise FortranSyntaxError("n(<index>) expected")
                    if self.next()[1] != ")":
                        raise FortranSyntaxError(") expected")
                    return ("r", float(self.arrays[idx]))
                args = [self.expr()]
                while self.peek()[1] == ",":
                    self.next()
                    args.append(self.expr())
                if self.next()[1] != ")":
                    raise FortranSyntaxError(") expected")
                fn = _FUNCS.get(t.lower())
                if fn is None:
                    raise FortranSyntaxError(f"unknown function {t}")
                try:
                    return ("r", float(fn(*[_f(a) for a in args])))
                except OverflowError:
                    return ("r", math.inf)
                except ValueError:
                    x = _f(args[0])
                    if t.lower() in ("log", "log10", "dlog") and x == 0.0:
                        return ("r", -math.inf)
                    return ("r", math.nan)
            if t in self.env:
                return ("r", float(self.env[t]))
            raise FortranSyntaxError(f"unknown name {t}")
        if t == "(":
            v = self.expr()
            if self.next()[1] != ")":
                raise FortranSyntaxError(") expected")
            return v
        raise FortranSyntaxError(f"unexpected {t!r}")


def evaluate(text, env, arrays=None, all_real=False, pow_real=False, **kw):
    ALL_REAL[0] = all_real
    POW_REAL[0] = pow_real
    try:
        return Evaluator(text, env, arrays, **kw).run()[1]
    finally:
        ALL_REAL[0] = False
        POW_REAL[0] = False
