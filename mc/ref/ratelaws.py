"""Published gas-phase rate laws as plain functions (IEEE double semantics via numpy).

Sources: KIDA (Wakelam et al. 2012, formulae 1-5), UMIST RATE12 (McElroy et al. 2013,
eqs. 1-4), Walsh et al. 2015 (Leeds types), UCLCHEM v1.3 (Holdship et al. 2017),
and the native naunet types that restate them.  p is the physical parameter dict.
"""
from __future__ import annotations

import math
import numpy as np

ZISM = 1.3e-17

np.seterr(all="ignore")
f8 = np.float64


def _arr(T, b, c):
    """(T/300)^b * exp(-c/T) with the factors that equal 1 left out exactly as the
    mathematical law allows (x^0 = 1, exp(0) = 1)"""
    v = f8(1.0)
    if b != 0:
        v = v * np.power(f8(T) / f8(300.0), f8(b))
    if c != 0:
        v = v * np.exp(-f8(c) / f8(T))
    return v


def twobody(a, b, c, p):
    """modified Arrhenius: a (T/300)^b exp(-c/T)"""
    v = f8(a)
    if b != 0:
        v = v * np.power(f8(p["Tgas"]) / f8(300.0), f8(b))
    if c != 0:
        v = v * np.exp(-f8(c) / f8(p["Tgas"]))
    return v


def cosmicray(a, b, c, p):
    """direct cosmic-ray ionisation, zeta in s^-1: a * zeta"""
    return f8(a) * f8(p["zeta"])


def photon(a, b, c, p):
    """photo-process in the Draine field: a exp(-c Av)"""
    return f8(a) * np.exp(-f8(c) * f8(p["Av"]))


def kida_photon(a, b, c, p):
    return photon(a, b, c, p)


def ionpol1(a, b, c, p):
    return f8(a) * f8(b) * (f8(0.62) + f8(0.4767) * f8(c) * np.sqrt(f8(300.0) / f8(p["Tgas"])))


def ionpol2(a, b, c, p):
    T = f8(p["Tgas"])
    c = f8(c)
    return f8(a) * f8(b) * (f8(1.0) + f8(0.0967) * c * np.sqrt(f8(300.0) / T) + c * c * (f8(300.0) / T) / f8(10.526))


def crphot(a, b, c, p):
    """cosmic-ray-induced photoreaction: a (T/300)^b c / (1 - omega)"""
    return f8(a) * np.power(f8(p["Tgas"]) / f8(300.0), f8(b)) * f8(c) / (f8(1.0) - f8(p["omega"]))


def umist_cp(a, b, c, p):
    """UMIST direct cosmic-ray ionisation: k = alpha"""
    return f8(a)


def leeds_cr(a, b, c, p):
    return f8(a) * (f8(p["zeta_cr"]) + f8(p["zeta_xr"])) / f8(ZISM)


def leeds_crphot(a, b, c, p):
    z = (f8(p["zeta_cr"]) + f8(p["zeta_xr"])) / f8(ZISM)
    return f8(a) * z * np.power(f8(p["Tgas"]) / f8(300.0), f8(b)) * f8(c) / (f8(1.0) - f8(p["omega"]))


def leeds_photon(a, b, c, p, shield=None):
    v = f8(p["G0"]) * f8(a) * np.exp(-f8(c) * f8(p["Av"]))
    if shield is not None:
        v = v * f8(shield)
    return v


def zero(a, b, c, p):
    return f8(0.0)


def ucl_cr(a, b, c, p):
    return f8(a) * (f8(p["zeta"]) / f8(ZISM))


def ucl_crphot(a, b, c, p):
    return f8(a) * (f8(p["zeta"]) / f8(ZISM)) * np.power(f8(p["Tgas"]) / f8(300.0), f8(b)) * f8(c) / (f8(1.0) - f8(p["omega"]))


def ucl_photon(a, b, c, p):
    return f8(p["G0"]) * f8(a) * np.exp(-f8(c) * f8(p["Av"])) / f8(1.7)


def ucl_photon_co(a, b, c, p, shield, scatter):
    return f8(2.0e-10) * f8(p["G0"]) * f8(shield) * f8(scatter) / f8(1.7)


def same(x, y, rel=1e-12) -> bool:
    x = float(x)
    y = float(y)
    if x != x or y != y:
        return (x != x) and (y != y)
    if x in (float("inf"), float("-inf")) or y in (float("inf"), float("-inf")):
        return x == y
    if x == y:
        return True
    return abs(x - y) <= rel * max(abs(x), abs(y))


# ---- UCLCHEM's CO photodissociation helpers (photoreac.f90): second transcription, used to judge the generated helpers ----
_SM79_X = [910.0, 950.0, 1000.0, 1050.0, 1110.0, 1180.0, 1250.0, 1390.0, 1490.0, 1600.0, 1700.0, 1800.0, 1900.0, 2000.0, 2100.0, 2190.0, 2300.0,
           2400.0, 2500.0, 2740.0, 3440.0, 4000.0, 4400.0, 5500.0, 7000.0, 9000.0, 12500.0, 22000.0, 34000.0]
_SM79_Y = [5.76, 5.18, 4.65, 4.16, 3.73, 3.4, 3.11, 2.74, 2.63, 2.62, 2.54, 2.5, 2.58, 2.78, 3.01, 3.12, 2.86, 2.58, 2.35, 2.0, 1.58, 1.42, 1.32, 1.0,
           0.75, 0.48, 0.28, 0.12, 0.05]


def ucl_xlamda(wl):
    """tau(lambda)/tau(V), Savage & Mathis 1979 table, linear interpolation; constant below 910 A, linear tail above 34000 A"""
    if wl < _SM79_X[0]:
        return 5.76
    if wl >= _SM79_X[-1]:
        return 0.05 - 5.16e-11 * (wl - _SM79_X[-1])
    for i in range(len(_SM79_X) - 1):
        if _SM79_X[i] <= wl < _SM79_X[i + 1]:
            return _SM79_Y[i] + (_SM79_Y[i + 1] - _SM79_Y[i]) * (wl - _SM79_X[i]) / (_SM79_X[i + 1] - _SM79_X[i])
    raise ValueError(wl)


def ucl_scatter(av, wl):
    """attenuation by dust scattering (g = 0.8, omega = 0.3), Wagenblast & Hartquist 1989: the branch is chosen by the
    optical depth AT THE WAVELENGTH (tl), one term below tl = 1, five terms above; terms with exponent >= 35 are dropped"""
    c = [1.0, 2.006, -1.438, 7.364e-1, -5.076e-1, -5.920e-2]
    k = [7.514e-1, 8.490e-1, 1.013, 1.282, 2.005, 5.832]
    tv = av / 1.086
    tl = tv * ucl_xlamda(wl)
    out = 0.0
    if tl < 1.0:
        if k[0] * tl < 35.0:
            out = c[0] * math.exp(-k[0] * tl)
    else:
        for i in range(1, 6):
            if k[i] * tl < 35.0:
                out += c[i] * math.exp(-k[i] * tl)
    return out


def vdb88_lambda_bar(h2col, cocol):
    """eq. 4 of van Dishoeck & Black 1988, clipped to the band range 913 - 1076 A"""
    lco = math.log10(abs(cocol) + 1.0)
    lh2 = math.log10(abs(h2col) + 1.0)
    lbar = (5675.0 - 200.6 * lh2) - (571.6 - 24.09 * lh2) * lco + (18.22 - 0.7664 * lh2) * lco**2
    return min(1076.0, max(913.0, lbar))

