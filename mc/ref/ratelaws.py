"""Published gas-phase rate laws as plain functions (IEEE double semantics via numpy).

Sources: KIDA (Wakelam et al. 2012, formulae 1-5), UMIST RATE12 (McElroy et al. 2013,
eqs. 1-4), Walsh et al. 2015 (Leeds types), UCLCHEM v1.3 (Holdship et al. 2017),
and the native naunet types that restate them.  p is the physical parameter dict.
"""
from __future__ import annotations

import numpy as np

ZISM = 1.3e-17

np.seterr(all="ignore")
f8 = np.float64


def _arr(T, b, c):
    """(T/300)^b * exp(-c/T) with the factors that equal 1 left out exactly as the
    mathematical law allows (x^0 = 1, exp(0) = 1)"""
    v = f8(1.0)
    if b != 0:
        v = v * np.power(f8(T) / f8(300.0), f8(b))
    if c != 0:
        v = v * np.exp(-f8(c) / f8(T))
    return v


def twobody(a, b, c, p):
    """modified Arrhenius: a (T/300)^b exp(-c/T)"""
    v = f8(a)
    if b != 0:
        v = v * np.power(f8(p["Tgas"]) / f8(300.0), f8(b))
    if c != 0:
        v = v * np.exp(-f8(c) / f8(p["Tgas"]))
    return v


def cosmicray(a, b, c, p):
    """direct cosmic-ray ionisation, zeta in s^-1: a * zeta"""
    return f8(a) * f8(p["zeta"])


def photon(a, b, c, p):
    """photo-process in the Draine field: a exp(-c Av)"""
    return f8(a) * np.exp(-f8(c) * f8(p["Av"]))


def kida_photon(a, b, c, p):
    return photon(a, b, c, p)


def ionpol1(a, b, c, p):
    return f8(a) * f8(b) * (f8(0.62) + f8(0.4767) * f8(c) * np.sqrt(f8(300.0) / f8(p["Tgas"])))


def ionpol2(a, b, c, p):
    T = f8(p["Tgas"])
    c = f8(c)
    return f8(a) * f8(b) * (f8(1.0) + f8(0.0967) * c * np.sqrt(f8(300.0) / T) + c * c * (f8(300.0) / T) / f8(10.526))


def crphot(a, b, c, p):
    """cosmic-ray-induced photoreaction: a (T/300)^b c / (1 - omega)"""
    return f8(a) * np.power(f8(p["Tgas"]) / f8(300.0), f8(b)) * f8(c) / (f8(1.0) - f8(p["omega"]))


def umist_cp(a, b, c, p):
    """UMIST direct cosmic-ray ionisation: k = alpha"""
    return f8(a)


def leeds_cr(a, b, c, p):
    return f8(a) * (f8(p["zeta_cr"]) + f8(p["zeta_xr"])) / f8(ZISM)


def leeds_crphot(a, b, c, p):
    z = (f8(p["zeta_cr"]) + f8(p["zeta_xr"])) / f8(ZISM)
    return f8(a) * z * np.power(f8(p["Tgas"]) / f8(300.0), f8(b)) * f8(c) / (f8(1.0) - f8(p["omega"]))


def leeds_photon(a, b, c, p, shield=None):
    v = f8(p["G0"]) * f8(a) * np.exp(-f8(c) * f8(p["Av"]))
    if shield is not None:
        v = v * f8(shield)
    return v


def zero(a, b, c, p):
    return f8(0.0)


def ucl_cr(a, b, c, p):
    return f8(a) * (f8(p["zeta"]) / f8(ZISM))


def ucl_crphot(a, b, c, p):
    return f8(a) * (f8(p["zeta"]) / f8(ZISM)) * np.power(f8(p["Tgas"]) / f8(300.0), f8(b)) * f8(c) / (f8(1.0) - f8(p["omega"]))


def ucl_photon(a, b, c, p):
    return f8(p["G0"]) * f8(a) * np.exp(-f8(c) * f8(p["Av"])) / f8(1.7)


def ucl_photon_co(a, b, c, p, shield, scatter):
    return f8(2.0e-10) * f8(p["G0"]) * f8(shield) * f8(scatter) / f8(1.7)


def same(x, y, rel=1e-12) -> bool:
    x = float(x)
    y = float(y)
    if x != x or y != y:
        return (x != x) and (y != y)
    if x in (float("inf"), float("-inf")) or y in (float("inf"), float("-inf")):
        return x == y
    if x == y:
        return True
    return abs(x - y) <= rel * max(abs(x), abs(y))
