"""Reference side of the six line formats: my own encoders (abstract reaction ->
line, following the published column layouts) and small independent decoders used
only to obtain the abstract reactions of bundled files.  Nothing here imports naunet."""
from __future__ import annotations

from dataclasses import dataclass, field

PSEUDO = {"CR", "CRP", "PHOTON", "CRPHOT", "Photon", "XRAY", "g", "X", "M"}
UCL_MARKERS = ["CRP", "PHOTON", "CRPHOT", "FREEZE", "DESOH2", "DESCR", "DEUVCR", "THERM", "DIFF", "CHEMDES"]


@dataclass
class AReaction:
    reactants: list
    products: list
    alpha: float = 0.0
    beta: float = 0.0
    gamma: float = 0.0
    tmin: float = -1.0
    tmax: float = -1.0
    idx: int = -1
    code: object = None  # format-specific type/formula/code
    marker: str | None = None  # pseudo reactant token written into the line
    extra: dict = field(default_factory=dict)


# ---- encoders --------------------------------------------------------------
def _fnum(x, spec):
    return format(x, spec)


def enc_kida(r: AReaction, num=lambda x: f"{x:10.3e}") -> str:
    """KIDA: 3 reactant fields + 5 product fields of 11 chars, then whitespace separated
    a b c F g type itype Tmin Tmax formula idx nrec rec"""
    reac = list(r.reactants) + ([r.marker] if r.marker else [])
    if len(reac) > 3 or len(r.products) > 5:
        raise ValueError("too many species for KIDA")
    s = "".join(f"{x:<11}" for x in reac + [""] * (3 - len(reac))) + " "
    s += "".join(f"{x:<11}" for x in list(r.products) + [""] * (5 - len(r.products))) + " "
    itype = r.extra.get("itype", 4)
    s += f"{num(r.alpha)} {num(r.beta)} {num(r.gamma)} 2.00e+00 0.00e+00 logn {itype:2d} {int(r.tmin):6d} {int(r.tmax):6d} {int(r.code):2d} {r.idx:5d} 1  1"
    return s


def enc_umist(r: AReaction, num=lambda x: repr(float(x))) -> str:
    """UMIST RATE12: idx:code:R1:R2:P1:P2:P3:P4:NE:a:b:c:Tl:Tu:ST:ACC:REF..."""
    reac = list(r.reactants) + ([r.marker] if r.marker else [])
    if len(reac) > 2 or len(r.products) > 4:
        raise ValueError("too many species for UMIST")
    f = [str(r.idx), str(r.code)] + reac + [""] * (2 - len(reac)) + list(r.products) + [""] * (4 - len(r.products))
    f += ["1", num(r.alpha), num(r.beta), num(r.gamma), num(r.tmin), num(r.tmax), "L", "C", '"ref"', ""]
    return ":".join(f)


def enc_leeds(r: AReaction) -> str:
    """Walsh/Leeds: I5 idx, 3xA10 reactants, 5xA10 products, a(8) b(9) c(10) Tl(5) Tu(5) type(3)"""
    reac = list(r.reactants) + ([r.marker] if r.marker else [])
    if len(reac) > 3 or len(r.products) > 5:
        raise ValueError("too many species for Leeds")
    s = f"{r.idx:<5d}"[:5] if r.idx < 100000 else None
    if s is None:
        raise ValueError("index too wide")
    s += "".join(f"{x:<10}" for x in reac + [""] * (3 - len(reac)))
    s += "".join(f"{x:<10}" for x in list(r.products) + [""] * (5 - len(r.products)))
    a = f"{r.alpha:8.2E}"
    b = f"{r.beta:9.2f}"
    c = f"{r.gamma:10.1f}"
    lt = f"{int(r.tmin):5d}"
    ht = f"{int(r.tmax):5d}"
    ty = f"{int(r.code):3d}"
    for fld, w in ((a, 8), (b, 9), (c, 10), (lt, 5), (ht, 5), (ty, 3)):
        if len(fld) != w:
            raise ValueError(f"field {fld!r} does not fit width {w}")
    return s + a + b + c + lt + ht + ty


def enc_uclchem(r: AReaction, num=lambda x: repr(float(x))) -> str:
    """UCLCHEM Makerates: R1,R2,R3,P1,P2,P3,P4,alpha,beta,gamma,Tmin,Tmax ; empty slot = NAN,
    the marker token sits in the second reactant slot"""
    reac = list(r.reactants)
    if r.marker:
        if len(reac) != 1:
            raise ValueError("marker needs exactly one real reactant")
        reac = [reac[0], r.marker]
    if len(reac) > 3 or len(r.products) > 4:
        raise ValueError("too many species for UCLCHEM")
    f = reac + ["NAN"] * (3 - len(reac)) + list(r.products) + ["NAN"] * (4 - len(r.products))
    f += [num(r.alpha), num(r.beta), num(r.gamma), num(r.tmin), num(r.tmax)]
    return ",".join(f)


def enc_naunet(r: AReaction, source="unknown") -> str:
    """native: idx(<5), 3 x 12 reactants, 5 x 12 products, a b c (10.3e), Tmin Tmax (9.2f), type(>4), source(>8)"""
    reac = list(r.reactants) + ([r.marker] if r.marker else [])
    f = [f"{r.idx:<5}"] + [f"{x:>12}" for x in reac + [""] * (3 - len(reac))]
    f += [f"{x:>12}" for x in list(r.products) + [""] * (5 - len(r.products))]
    f += [f"{r.alpha:10.3e}", f"{r.beta:10.3e}", f"{r.gamma:10.3e}", f"{r.tmin:9.2f}", f"{r.tmax:9.2f}", f"{int(r.code):>4}", f"{source:>8}"]
    return ",".join(f)


def enc_krome(r: AReaction, fmt="idx,r,r,r,p,p,p,p,tmin,tmax,rate", tmin_txt=None, tmax_txt=None, rate="1.0d-10") -> str:
    keys = fmt.lower().split(",")
    reac = list(r.reactants) + ([r.marker] if r.marker else [])
    nr, np_ = keys.count("r"), keys.count("p")
    if len(reac) > nr or len(r.products) > np_:
        raise ValueError("too many species for this @format")
    ri = iter(reac + [""] * (nr - len(reac)))
    pi = iter(list(r.products) + [""] * (np_ - len(r.products)))
    out = []
    for k in keys:
        if k == "idx":
            out.append(str(r.idx))
        elif k == "r":
            out.append(next(ri))
        elif k == "p":
            out.append(next(pi))
        elif k == "tmin":
            out.append(tmin_txt if tmin_txt is not None else "NONE")
        elif k == "tmax":
            out.append(tmax_txt if tmax_txt is not None else "NONE")
        elif k == "rate":
            out.append(rate)
        else:
            raise ValueError(k)
    return ",".join(out)


# ---- minimal independent decoders (species only; used for ODE references) ----
def _clean(names):
    return [x for x in names if x and x not in PSEUDO]


def dec_species(line: str, fmt: str, state: dict | None = None):
    """-> (reactants, products) or None for a non-data line"""
    raw = line.rstrip("\n")
    if fmt == "kida":
        if not raw.strip():
            return None
        s = raw.strip()
        return _clean(s[:34].split()), _clean(s[34:90].split())
    if fmt == "umist":
        if not raw.strip():
            return None
        f = raw.strip().split(":")
        return _clean(f[2:4]), _clean(f[4:8])
    if fmt == "leeds":
        if not raw.strip():
            return None
        return _clean(raw[5:35].split()), _clean(raw[35:85].split())
    if fmt == "uclchem":
        if not raw.strip():
            return None
        f = raw.strip().split(",")
        bad = set(UCL_MARKERS) | {"NAN"}
        return [x for x in f[0:3] if x not in bad and x], [x for x in f[3:7] if x not in bad and x]
    if fmt == "naunet":
        if not raw.strip():
            return None
        f = raw.split(",")
        return _clean([x.strip() for x in f[1:4]]), _clean([x.strip() for x in f[4:9]])
    if fmt == "krome":
        st = state if state is not None else {}
        s = raw.strip()
        if not s or s.startswith(("#", "//")):
            return None
        if s.startswith("@format:"):
            st["fmt"] = s[len("@format:") :].lower()
            return None
        if s.startswith("@"):
            return None
        keys = st.get("fmt", "idx,r,r,r,p,p,p,p,tmin,tmax,rate").split(",")
        vals = s.split(",")
        r = [v for k, v in zip(keys, vals) if k.strip() == "r"]
        p = [v for k, v in zip(keys, vals) if k.strip() == "p"]
        return _clean(r), _clean(p)
    raise ValueError(fmt)


def dec_file_species(path: str, fmt: str):
    out = []
    st = {}
    with open(path) as f:
        for line in f.read().split("\n"):
            d = dec_species(line, fmt, st)
            if d is not None:
                out.append(d)
    return out
