"""Drive naunet's cleo commands non-interactively inside the current process
(callers that care about global state run this inside a fresh worker process)."""
from __future__ import annotations

import contextlib
import io
import os
import signal
from pathlib import Path

from ..core.runner import HarnessError


class CommandTimeout(Exception):
    pass


def _alarm(signum, frame):
    raise CommandTimeout()


def run_command(name: str, args: str, cwd: Path | str, timeout: int = 120):
    """-> (status_code or None, output, error, exception or None)"""
    from cleo.testers.command_tester import CommandTester
    from naunet.console.application import Application

    app = Application()
    cmd = app.find(name)
    tester = CommandTester(cmd)
    old = os.getcwd()
    os.chdir(str(cwd))
    exc = None
    status = None
    signal.signal(signal.SIGALRM, _alarm)
    signal.alarm(timeout)
    buf = io.StringIO()
    try:
        with contextlib.redirect_stdout(buf):
            try:
                status = tester.execute(args, interactive=False)
            except SystemExit as e:
                status = e.code if isinstance(e.code, int) else 1
            except CommandTimeout:
                raise HarnessError(f"command '{name} {args}' did not finish in {timeout}s (interactive prompt?)")
            except Exception as e:  # the command raised: part of the observation
                exc = e
    finally:
        signal.alarm(0)
        os.chdir(old)
    try:
        out = tester.io.fetch_output()
        err = tester.io.fetch_error()
    except Exception:
        out = err = ""
    return status, buf.getvalue() + out, err, exc
