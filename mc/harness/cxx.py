"""g++ helpers (E5): syntax confirmation of single statements, compiling rendered
sources against the API shim, running small drivers."""
from __future__ import annotations

import hashlib
import os
import re
import shutil
import subprocess
import tempfile
from pathlib import Path

from ..core.runner import HarnessError, VERIF
from .render import scratch

SHIM = VERIF / "shim"
GXX = shutil.which("g++") or "g++"
_KEYWORDS = {"double", "int", "float", "if", "else", "return", "for", "while", "const", "void", "realtype"}
_LIBM = {"exp", "log", "log10", "sqrt", "pow", "fabs", "fmax", "fmin", "sin", "cos", "tan", "atan", "tanh", "abs", "max", "min"}


def run(cmd, timeout=600, cwd=None, env=None, input=None):
    try:
        p = subprocess.run(cmd, capture_output=True, text=True, timeout=timeout, cwd=cwd, env=env, input=input)
    except subprocess.TimeoutExpired:
        raise HarnessError(f"timeout after {timeout}s: {' '.join(map(str, cmd))[:200]}")
    return p.returncode, p.stdout, p.stderr


def gxx_rejects_expression(expr: str) -> tuple[bool, str]:
    """Is `expr` rejected by g++ as an expression, with every identifier declared?
    -> (rejected, first diagnostic)"""
    ids = set(re.findall(r"[A-Za-z_]\w*", expr))
    ids = {i for i in ids if i not in _KEYWORDS and not re.fullmatch(r"[eE]\d*", i)}
    decl = ["#include <math.h>"]
    for i in sorted(ids):
        if i in _LIBM:
            continue
        if re.search(rf"\b{i}\s*\(", expr):
            decl.append(f"double {i}(...);")
        elif re.search(rf"\b{i}\s*\[", expr):
            decl.append(f"double {i}[4096];")
        elif i.startswith("IDX_") or i.isupper():
            decl.append(f"const int {i} = 0;")
        else:
            decl.append(f"double {i} = 1.0;")
    src = "\n".join(decl) + f"\ndouble __verif_f() {{ double __v = {expr};\n return __v; }}\n"
    d = Path(tempfile.mkdtemp(dir=scratch()))
    try:
        f = d / "t.cpp"
        f.write_text(src)
        rc, out, err = run([GXX, "-std=c++17", "-fsyntax-only", "-w", str(f)], timeout=60)
        first = ""
        for ln in err.splitlines():
            if "error" in ln:
                first = ln.split("error:", 1)[-1].strip()
                break
        return rc != 0, first
    finally:
        shutil.rmtree(d, ignore_errors=True)


def rhs_of(stmt: str) -> str:
    depth = 0
    for i, c in enumerate(stmt):
        if c in "([":
            depth += 1
        elif c in ")]":
            depth -= 1
        elif c == "=" and depth == 0 and stmt[i + 1 : i + 2] != "=" and stmt[i - 1 : i] not in "<>!=":
            return stmt[i + 1 :].strip().rstrip(";")
    return stmt


def confirm_not_c(stmt: str) -> str:
    """E4 refused `stmt`; hand its right-hand side to g++.  Returns g++'s diagnostic;
    raises HarnessError when g++ accepts it (then E4 is wrong, not naunet)."""
    rej, diag = gxx_rejects_expression(rhs_of(stmt))
    if not rej:
        raise HarnessError(f"E4 refused a statement g++ accepts: {stmt[:200]!r}")
    return diag


def compile_sources(workdir: Path, sources: list[str], includes: list[Path], out: str | None = None, flags=(), syntax_only=False, timeout=900):
    """-> (returncode, stderr)"""
    cmd = [GXX, "-std=c++17", "-w"] + list(flags)
    for inc in includes:
        cmd += ["-I", str(inc)]
    if syntax_only:
        cmd += ["-fsyntax-only"]
    cmd += sources
    if out and not syntax_only:
        cmd += ["-o", out, "-lm"]
    rc, so, se = run(cmd, timeout=timeout, cwd=str(workdir))
    return rc, se
