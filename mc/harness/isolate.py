"""Run a function in a forked child of the *current* process and get its (picklable) result.
Used where a pool worker (daemonic, cannot create pools) needs a second process whose
global state stays separate from its own."""
from __future__ import annotations

import os
import pickle
import signal

from ..core.runner import HarnessError


def fork_call(fn, *args, timeout=900):
    r, w = os.pipe()
    pid = os.fork()
    if pid == 0:
        os.close(r)
        code = 0
        try:
            try:
                res = ("ok", fn(*args))
            except BaseException as e:  # noqa
                res = ("raised", f"{type(e).__name__}: {e}")
            with os.fdopen(w, "wb") as f:
                pickle.dump(res, f)
        except BaseException:
            code = 1
        os._exit(code)
    os.close(w)
    signal.signal(signal.SIGALRM, lambda *a: (_ for _ in ()).throw(HarnessError("forked call timed out")))
    signal.alarm(timeout)
    try:
        with os.fdopen(r, "rb") as f:
            data = f.read()
        os.waitpid(pid, 0)
    finally:
        signal.alarm(0)
    if not data:
        raise HarnessError("forked child returned nothing")
    kind, val = pickle.loads(data)
    if kind == "raised":
        raise HarnessError(f"forked child raised {val}")
    return val
