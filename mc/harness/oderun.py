"""Compile the rendered Fex/Jac (+EvalRates) against the shim with ASan/UBSan and run
them once per abundance vector: binds the E4 reader to what a real compiler computes and
lets the sanitizers see every subscript with exactly-sized buffers."""
from __future__ import annotations

import shutil
import struct
import subprocess
import tempfile
from pathlib import Path

from ..core.runner import HarnessError
from ..ctext.stmts import read_macros
from .cxx import GXX, SHIM, run
from .ratesrun import _c, _default, data_fields
from .render import scratch

CVODE_SRCS = ["src/naunet_rates.cpp", "src/naunet_fex.cpp", "src/naunet_jac.cpp", "src/naunet_constants.cpp", "src/naunet_physics.cpp", "src/naunet_utilities.cpp"]
ODEINT_SRCS = ["src/naunet_ode.cpp", "src/naunet_constants.cpp", "src/naunet_physics.cpp", "src/naunet_utilities.cpp"]
TEMPLATES_CVODE = [
    "include/naunet_macros.h.j2", "include/naunet_data.h.j2", "include/naunet_constants.h.j2", "include/naunet_physics.h.j2", "include/naunet_utilities.h.j2",
    "include/naunet_ode.h.j2", "src/naunet_rates.cpp.j2", "src/naunet_fex.cpp.j2", "src/naunet_jac.cpp.j2", "src/naunet_constants.cpp.j2", "src/naunet_physics.cpp.j2", "src/naunet_utilities.cpp.j2",
]
TEMPLATES_ODEINT = [t for t in TEMPLATES_CVODE if not any(x in t for x in ("rates", "fex", "jac"))] + ["src/naunet_ode.cpp.j2"]


def build_and_run(files: dict, backend: str, yvals: list[list[float]], params: dict, sanitize=True, timeout=900):
    """-> list (per y vector) of dict(k=[..], ydot=[..], jac={(r,c): v} , csr=(rowptrs, colvals, data) | None) or {'error': ...}"""
    macros = read_macros(files["include/naunet_macros.h"])
    neq, nreac, nnz = macros.value("NEQUATIONS"), macros.value("NREACTIONS"), macros.value("NNZ")
    fields = data_fields(files)
    d = Path(tempfile.mkdtemp(dir=scratch()))
    try:
        for rel, text in files.items():
            p = d / rel
            p.parent.mkdir(parents=True, exist_ok=True)
            p.write_text(text)
        ng = len(yvals)
        yrows = ", ".join("{" + ", ".join(_c(v) for v in yv) + "}" for yv in yvals)
        plist = params if isinstance(params, list) else [params] * ng
        if len(plist) != ng:
            raise HarnessError("one parameter set per abundance vector expected")
        prow = ", ".join("{" + (", ".join(_c(pp.get(f, _default(dflt))) for f, dflt in fields) or "0") + "}" for pp in plist)
        assign = "\n".join(f"    d.{f} = PRM[g][{i}];" for i, (f, dflt) in enumerate(fields))
        common = f"""
#include <stdio.h>
#include <math.h>
#include "naunet_data.h"
#include "naunet_macros.h"
#include "naunet_ode.h"
static const double Y[{ng}][{neq}] = {{ {yrows} }};
static const double PRM[{ng}][{max(1, len(fields))}] = {{ {prow} }};
static void put(FILE *o, const double *p, size_t n) {{ fwrite(p, sizeof(double), n, o); }}
#include "naunet_physics.h"
/* extras per system: the cooling coefficients and the helper values the temperature equation is built from */
static void put_extras(FILE *o, double *y, NaunetData *d) {{
#if NCOOLPROCS
    double *kc = (double *)malloc(sizeof(double) * NCOOLPROCS);
    for (int i = 0; i < NCOOLPROCS; i++) kc[i] = 0.0;
    EvalCoolingRates(kc, y, d);
    put(o, kc, NCOOLPROCS);
    free(kc);
#endif
    double h[3] = {{ GetNumDens(y), GetMu(y), GetGamma(y) }};
    put(o, h, 3);
}}
"""
        if backend in ("dense", "sparse"):
            mk = "SUNDenseMatrix(NEQUATIONS, NEQUATIONS, ctx)" if backend == "dense" else "SUNSparseMatrix(NEQUATIONS, NEQUATIONS, NNZ, CSR_MAT, ctx)"
            inc = "#include <nvector/nvector_serial.h>\n#include <sunmatrix/sunmatrix_dense.h>\n#include <sunmatrix/sunmatrix_sparse.h>\n"
            out_j = (
                "for (int r = 0; r < NEQUATIONS; r++) for (int c = 0; c < NEQUATIONS; c++) { double v = SM_ELEMENT_D(J, r, c); put(o, &v, 1); }"
                if backend == "dense"
                else "{ sunindextype *rp = SUNSparseMatrix_IndexPointers(J); sunindextype *cv = SUNSparseMatrix_IndexValues(J); realtype *dv = SUNSparseMatrix_Data(J);"
                " for (int i = 0; i < NEQUATIONS + 1; i++) { double v = (double)rp[i]; put(o, &v, 1); } for (int i = 0; i < NNZ; i++) { double v = (double)cv[i]; put(o, &v, 1); } put(o, dv, NNZ); }"
            )
            body = f"""
{inc}
int main() {{
    FILE *o = fopen("out.bin", "wb");
    SUNContext ctx; SUNContext_Create(NULL, &ctx);
    NaunetData d;
    for (int g = 0; g < {ng}; g++) {{
    {assign}
        realtype *y = (realtype *)malloc(sizeof(realtype) * NEQUATIONS);     /* exactly sized heap buffers */
        for (int i = 0; i < NEQUATIONS; i++) y[i] = Y[g][i];
        realtype *k = (realtype *)malloc(sizeof(realtype) * NREACTIONS);
        for (int i = 0; i < NREACTIONS; i++) k[i] = 0.0;
        EvalRates(k, y, &d);
        put(o, k, NREACTIONS);
        N_Vector u = N_VMake_Serial(NEQUATIONS, y, ctx);
        N_Vector ud = N_VNew_Serial(NEQUATIONS, ctx);
        N_VConst(0.0, ud);
        Fex(0.0, u, ud, &d);
        put(o, N_VGetArrayPointer(ud), NEQUATIONS);
        put_extras(o, y, &d);
        SUNMatrix J = {mk};
        Jac(0.0, u, ud, J, &d, NULL, NULL, NULL);
        {out_j}
        SUNMatDestroy(J); N_VDestroy(ud); N_VDestroy(u); free(k); free(y);
    }}
    SUNContext_Free(&ctx);
    fclose(o);
    return 0;
}}
"""
            srcs = CVODE_SRCS
        elif backend == "cusparse":
            # the CUDA sources run on the host: kernels are launched through VERIF_LAUNCH (every "thread" of the grid
            # in turn), device memory is exactly-sized heap memory.  All abundance vectors form ONE batch, the grid is
            # smaller than the batch so that the grid-stride loop of the kernels is exercised.
            import re as _re

            for rel in list(files):
                if rel.endswith(".cu"):
                    txt = _re.sub(r"\b(\w+)\s*<<<\s*([^,>]+),\s*([^,>]+)(?:,[^>]*)?>>>\s*\(", r"VERIF_LAUNCH(\1, \2, \3)(", files[rel])
                    (d / (rel[:-3] + "_cu.cpp")).write_text("#include <algorithm>\nusing std::min; using std::max;\n" + txt)
            body = f"""
#define VERIF_CUDA_DEFINE_DIMS
#include <nvector/nvector_cuda.h>
#include <sunmatrix/sunmatrix_cusparse.h>
int main() {{
    FILE *o = fopen("out.bin", "wb");
    SUNContext ctx; SUNContext_Create(NULL, &ctx);
    const int ng = {ng};
    NaunetData *d = (NaunetData *)malloc(sizeof(NaunetData) * ng);   /* exactly sized */
    for (int g = 0; g < ng; g++) {{
    {assign.replace("d.", "d[g].")}
    }}
    cudaStream_t stream; cudaStreamCreate(&stream);
    SUNCudaBlockReduceExecPolicy *pol = new SUNCudaBlockReduceExecPolicy(2, 1, stream);   /* 2 threads for ng systems */
    N_Vector u = N_VNew_Cuda((sunindextype)NEQUATIONS * ng, ctx);
    N_Vector ud = N_VNew_Cuda((sunindextype)NEQUATIONS * ng, ctx);
    N_VSetKernelExecPolicy_Cuda(u, pol, pol); N_VSetKernelExecPolicy_Cuda(ud, pol, pol);
    free(u->content->data); u->content->data = (realtype *)malloc(sizeof(realtype) * NEQUATIONS * ng);
    free(ud->content->data); ud->content->data = (realtype *)malloc(sizeof(realtype) * NEQUATIONS * ng);
    for (int g = 0; g < ng; g++) for (int i = 0; i < NEQUATIONS; i++) {{ u->content->data[g * NEQUATIONS + i] = Y[g][i]; ud->content->data[g * NEQUATIONS + i] = 0.0; }}
    if (Fex(0.0, u, ud, d) != 0) return 3;
    cusparseHandle_t h; cusparseCreate(&h);
    SUNMatrix J = SUNMatrix_cuSparse_NewBlockCSR(ng, NEQUATIONS, NEQUATIONS, NNZ, h, ctx);
    if (InitJac(J) != 0) return 4;
    if (Jac(0.0, u, ud, J, d, NULL, NULL, NULL) != 0) return 5;
    if (verif_kernel_threads != 4) return 6;   /* two launches of a 1 x 2 grid */
    for (int g = 0; g < ng; g++) {{
        realtype *k = (realtype *)malloc(sizeof(realtype) * NREACTIONS);
        for (int i = 0; i < NREACTIONS; i++) k[i] = 0.0;
        EvalRates(k, u->content->data + g * NEQUATIONS, &d[g]);
        put(o, k, NREACTIONS);
        put(o, ud->content->data + g * NEQUATIONS, NEQUATIONS);
        put_extras(o, u->content->data + g * NEQUATIONS, &d[g]);
        for (int i = 0; i < NEQUATIONS + 1; i++) {{ double v = (double)J->indexptrs[i]; put(o, &v, 1); }}
        for (int i = 0; i < NNZ; i++) {{ double v = (double)J->indexvals[i]; put(o, &v, 1); }}
        put(o, J->data + (size_t)g * NNZ, NNZ);
        free(k);
    }}
    fclose(o);
    return 0;
}}
"""
            srcs = [f"src/naunet_{n}_cu.cpp" for n in ("rates", "fex", "jac", "constants", "physics")] + ["src/naunet_utilities.cpp"]
        elif backend == "rosenbrock4":
            body = f"""
int main() {{
    FILE *o = fopen("out.bin", "wb");
    NaunetData d;
    for (int g = 0; g < {ng}; g++) {{
    {assign}
        vector_type x(NEQUATIONS), dx(NEQUATIONS), dfdt(NEQUATIONS);
        for (int i = 0; i < NEQUATIONS; i++) {{ x[i] = Y[g][i]; dx[i] = 0.0; }}
        double *y = (double *)malloc(sizeof(double) * NEQUATIONS);
        for (int i = 0; i < NEQUATIONS; i++) y[i] = Y[g][i];
        double *k = (double *)malloc(sizeof(double) * NREACTIONS);
        for (int i = 0; i < NREACTIONS; i++) k[i] = 0.0;
        EvalRates(k, y, &d);
        put(o, k, NREACTIONS);
        Fex f0(&d); Fex f(f0); f(x, dx, 0.0);   /* odeint takes the functors by value: what runs is always a copy */
        for (int i = 0; i < NEQUATIONS; i++) {{ double v = dx[i]; put(o, &v, 1); }}
        put_extras(o, y, &d);
        matrix_type m(NEQUATIONS, NEQUATIONS);
        Jac j0(&d); Jac j(j0); j(x, m, 0.0, dfdt);
        for (int r = 0; r < NEQUATIONS; r++) for (int c = 0; c < NEQUATIONS; c++) {{ double v = m(r, c); put(o, &v, 1); }}
        for (int i = 0; i < NEQUATIONS; i++) {{ double v = dfdt[i]; put(o, &v, 1); }}
        free(k); free(y);
    }}
    fclose(o);
    return 0;
}}
"""
            srcs = ODEINT_SRCS
        else:
            raise HarnessError(backend)
        (d / "driver.cpp").write_text(common + body)
        flags = ["-fsanitize=address,undefined", "-fno-sanitize-recover=all", "-g", "-O0"] if sanitize else ["-O0"]
        cuda = ["-D__host__=", "-D__device__=", "-D__constant__=", "-D__global__="] if backend == "cusparse" else []
        if backend == "cusparse":
            srcs = [x for x in srcs if "naunet_cu.cpp" not in x and not x.endswith("src/naunet.cpp")]
        cmd = [GXX, "-std=c++17", "-w", *flags, *cuda, "-I", str(SHIM), "-I", "include", *[s for s in srcs if (d / s).exists()], "driver.cpp", "-o", "drv", "-lm"]
        rc, so, se = run(cmd, timeout=timeout, cwd=str(d))
        if rc != 0:
            return {"error": "compile", "detail": "\n".join(ln for ln in se.splitlines() if "error" in ln)[:800]}
        p = subprocess.run(["./drv"], cwd=str(d), capture_output=True, timeout=timeout, env={"ASAN_OPTIONS": "detect_leaks=0", "UBSAN_OPTIONS": "print_stacktrace=0"})
        if p.returncode != 0:
            err = p.stderr.decode(errors="replace")
            head = next((ln for ln in err.splitlines() if "ERROR: AddressSanitizer" in ln or "runtime error" in ln or "SUMMARY" in ln), err[:300])
            return {"error": "runtime", "detail": head[:400], "stderr": err[:1500]}
        raw = (d / "out.bin").read_bytes()
        vals = struct.unpack(f"<{len(raw)//8}d", raw)
        ncool = macros.value("NCOOLPROCS") if "NCOOLPROCS" in macros.text else 0
        nx = ncool + 3
        per = nreac + neq + nx + (neq * neq if backend not in ("sparse", "cusparse") else (neq + 1 + 2 * nnz)) + (neq if backend == "rosenbrock4" else 0)
        if len(vals) != ng * per:
            raise HarnessError(f"oderun: {len(vals)} doubles, expected {ng*per}")
        out = []
        for g in range(ng):
            row = vals[g * per : (g + 1) * per]
            k = list(row[:nreac])
            yd = list(row[nreac : nreac + neq])
            xs = list(row[nreac + neq : nreac + neq + nx])
            extras = {"kc": xs[:ncool], "npar": xs[ncool], "mu": xs[ncool + 1], "gamma_helper": xs[ncool + 2]}
            rest = row[nreac + neq + nx :]
            if backend in ("sparse", "cusparse"):
                rp = [int(x) for x in rest[: neq + 1]]
                cv = [int(x) for x in rest[neq + 1 : neq + 1 + nnz]]
                dv = list(rest[neq + 1 + nnz :])
                jac = {}
                for r in range(neq):
                    for n in range(rp[r], rp[r + 1]):
                        jac[(r, cv[n])] = dv[n]
                out.append({"k": k, "ydot": yd, "jac": jac, "csr": (rp, cv, dv), **extras})
            else:
                jac = {(r, c): rest[r * neq + c] for r in range(neq) for c in range(neq)}
                more = {"dfdt": list(rest[neq * neq : neq * neq + neq])} if backend == "rosenbrock4" else {}
                out.append({"k": k, "ydot": yd, "jac": jac, "csr": None, **extras, **more})
        return {"runs": out, "neq": neq, "nreac": nreac, "nnz": nnz}
    finally:
        shutil.rmtree(d, ignore_errors=True)
