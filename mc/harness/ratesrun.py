"""Compile the rendered rate code with g++ against the shim and evaluate EvalRates
(and optional helper expressions) on a grid with the real compiler."""
from __future__ import annotations

import re
import shutil
import struct
import tempfile
from pathlib import Path

from ..core.runner import HarnessError
from ..ctext.cexpr import CSyntaxError, parse_expr
from ..ctext.stmts import Macros, classify, find_function_body, preprocess, read_macros, split_statements
from .cxx import GXX, SHIM, run
from .render import scratch

RATE_TEMPLATES_CVODE = [
    "include/naunet_macros.h.j2",
    "include/naunet_data.h.j2",
    "include/naunet_constants.h.j2",
    "include/naunet_physics.h.j2",
    "include/naunet_utilities.h.j2",
    "include/naunet_ode.h.j2",
    "src/naunet_rates.cpp.j2",
    "src/naunet_constants.cpp.j2",
    "src/naunet_physics.cpp.j2",
    "src/naunet_utilities.cpp.j2",
]
RATE_TEMPLATES_ODEINT = [t for t in RATE_TEMPLATES_CVODE if "rates" not in t] + ["src/naunet_ode.cpp.j2"]


def data_fields(files) -> list[tuple[str, str | None]]:
    """fields of struct NaunetData in declaration order: (name, default text)"""
    txt = files["include/naunet_data.h"]
    out = []
    body = txt[txt.index("struct NaunetData") :]
    for m in re.finditer(r"^\s*double\s+(\w+)\s*(?:=\s*([^;]+))?;", body, re.M):
        out.append((m.group(1), m.group(2).strip() if m.group(2) else None))
    return out


def read_rate_statements(files, which="k", source="src/naunet_rates.cpp", func=r"\bint\s+EvalRates\s*\("):
    """-> list of dict(index, guard, expr, stmt) in emission order; unknown shapes are harness errors"""
    macros = read_macros(files["include/naunet_macros.h"])
    txt = preprocess(files[source], macros, Macros())
    body = find_function_body(txt, func)
    out = []
    decls = []

    def handle(stmt, guard):
        k = classify(stmt)
        if k[0] == "decl":
            decls.append((k[3], k[5]))
            return
        if k[0] == "return":
            return
        if k[0] == "assign":
            m = re.match(rf"^{which}\s*\[\s*(\d+)\s*\]$", k[1])
            if not m:
                raise HarnessError(f"EvalRates: unexpected assignment target {k[1]!r}")
            out.append({"index": int(m.group(1)), "guard": guard, "expr": k[2], "stmt": stmt})
            return
        raise HarnessError(f"EvalRates: unexpected statement {stmt[:120]!r}")

    for node in split_statements(body):
        if node[0] == "stmt":
            handle(node[1], None)
        elif node[0] == "if":
            if node[3] is not None:
                raise HarnessError("EvalRates: if/else")
            for sub in node[2]:
                if sub[0] != "stmt":
                    raise HarnessError("EvalRates: nested block")
                handle(sub[1], " ".join(node[1].split()))
        else:
            raise HarnessError(f"EvalRates: unexpected node {node[0]}")
    return out, decls, macros


def patch_statement(src: str, index: int, which="k") -> str:
    """Replace the (already convicted) assignment to k[index] by NAN so the rest of the
    pack can still be compiled.  The statement may be wrapped over several lines."""
    pat = re.compile(rf"(\b{which}\[{index}\]\s*=)[^;]*;")
    new, n = pat.subn(r"\1 NAN; /* verif: statement removed, not C */", src, count=1)
    if n != 1:
        raise HarnessError(f"cannot patch statement {which}[{index}]")
    return new


def build_and_run(files: dict, grid: list[dict], yvals: list[list[float]] | None = None, helpers: list[str] | None = None,
                  solver="cvode", extra_flags=(), which_funcs=("EvalRates",), timeout=900):
    """grid: list of {field: value}; yvals: per grid point abundance vector (len NEQUATIONS) or None (all 1.0)
    helpers: C expressions evaluated per grid point with the NaunetData fields as local doubles.
    -> dict(k=[[...]], helpers=[[...]], compile_error=str|None)"""
    macros = read_macros(files["include/naunet_macros.h"])
    neq = macros.value("NEQUATIONS")
    nreac = macros.value("NREACTIONS")
    fields = data_fields(files)
    fnames = [f for f, _ in fields]
    for g in grid:
        for key in g:
            if key not in fnames and not key.startswith("_"):
                raise HarnessError(f"grid sets unknown NaunetData field {key}; fields: {fnames}")
    helpers = helpers or []
    d = Path(tempfile.mkdtemp(dir=scratch()))
    try:
        for rel, text in files.items():
            p = d / rel
            p.parent.mkdir(parents=True, exist_ok=True)
            p.write_text(text)
        ng = len(grid)
        rows = []
        for g in grid:
            rows.append(", ".join(_c(g.get(f, _default(dflt))) for f, dflt in fields) or "0")
        yrows = []
        for i in range(ng):
            yv = yvals[i] if yvals else [1.0] * neq
            if len(yv) != neq:
                raise HarnessError(f"y vector length {len(yv)} != NEQUATIONS {neq}")
            yrows.append(", ".join(_c(v) for v in yv))
        locals_ = "\n".join(f"        double {f} = d.{f}; (void){f};" for f in fnames)
        hcode = "\n".join(f"        {{ double h = ({h}); fwrite(&h, sizeof(double), 1, out); }}" for h in helpers)
        assign = "\n".join(f"        d.{f} = G[g][{i}];" for i, f in enumerate(fnames))
        kh = ""
        drv = f"""
#include <stdio.h>
#include <math.h>
#include "naunet_data.h"
#include "naunet_macros.h"
#include "naunet_constants.h"
#include "naunet_ode.h"
#include "naunet_physics.h"
static const double G[{ng}][{max(1,len(fnames))}] = {{ {', '.join('{'+r+'}' for r in rows)} }};
static const double Y[{ng}][{neq}] = {{ {', '.join('{'+r+'}' for r in yrows)} }};
int main() {{
    FILE *out = fopen("out.bin", "wb");
    for (int g = 0; g < {ng}; g++) {{
        NaunetData d;
{assign}
        double y[NEQUATIONS];
        for (int i = 0; i < NEQUATIONS; i++) y[i] = Y[g][i];
        double k[NREACTIONS] = {{0.0}};
        EvalRates(k, y, &d);
        fwrite(k, sizeof(double), NREACTIONS, out);
{locals_}
{hcode}
    }}
    fclose(out);
    return 0;
}}
"""
        (d / "driver.cpp").write_text(drv)
        if solver == "cvode":
            srcs = ["src/naunet_rates.cpp"]
        else:
            srcs = ["src/naunet_ode.cpp"]
        srcs += ["src/naunet_constants.cpp", "src/naunet_physics.cpp", "src/naunet_utilities.cpp", "driver.cpp"]
        srcs = [s for s in srcs if (d / s).exists()]
        cmd = [GXX, "-std=c++17", "-w", "-O0", *extra_flags, "-I", str(SHIM), "-I", "include", *srcs, "-o", "drv", "-lm"]
        rc, so, se = run(cmd, timeout=timeout, cwd=str(d))
        if rc != 0:
            return {"compile_error": se, "k": None, "helpers": None}
        import subprocess

        p = subprocess.run(["./drv"], cwd=str(d), capture_output=True, timeout=timeout)
        if p.returncode != 0:
            return {"compile_error": None, "run_error": f"rc={p.returncode} {p.stderr.decode(errors='replace')[:2000]}", "k": None, "helpers": None}
        per = nreac + len(helpers)
        raw = (d / "out.bin").read_bytes()
        n = len(raw) // 8
        if n != ng * per:
            raise HarnessError(f"driver wrote {n} doubles, expected {ng*per}")
        vals = struct.unpack(f"<{n}d", raw)
        ks, hs = [], []
        for g in range(ng):
            row = vals[g * per : (g + 1) * per]
            ks.append(list(row[:nreac]))
            hs.append(list(row[nreac:]))
        return {"compile_error": None, "k": ks, "helpers": hs, "fields": fnames, "stderr": p.stderr.decode(errors="replace")[:2000]}
    finally:
        shutil.rmtree(d, ignore_errors=True)


def _default(text):
    if text is None:
        return 0.0
    try:
        return float(text)
    except ValueError:
        return 0.0


def _c(v) -> str:
    v = float(v)
    if v != v:
        return "NAN"
    if v in (float("inf"), float("-inf")):
        return "INFINITY" if v > 0 else "-INFINITY"
    return v.hex()
