"""Render with the *real* TemplateLoader of the working tree onto tmpfs and hand
the produced files back as {relative path: text}.  Global-state hygiene lives here too."""
from __future__ import annotations

import contextlib
import io
import logging
import os
import shutil
import tempfile
from pathlib import Path

os.environ.setdefault("TQDM_DISABLE", "1")

BACKENDS = {
    "dense": ("cvode", "dense", "cpu"),
    "sparse": ("cvode", "sparse", "cpu"),
    "cusparse": ("cvode", "cusparse", "gpu"),
    "rosenbrock4": ("odeint", "rosenbrock4", "cpu"),
}

ODE_TEMPLATES = {
    "cvode": ["include/naunet_macros.h.j2", "src/naunet_fex.cpp.j2", "src/naunet_jac.cpp.j2"],
    "odeint": ["include/naunet_macros.h.j2", "src/naunet_ode.cpp.j2"],
}

_TL_CACHE: dict = {}
_SCRATCH = None


def scratch() -> Path:
    global _SCRATCH
    if _SCRATCH is None or not _SCRATCH.exists() or _SCRATCH.name.split("-")[-1] != str(os.getpid()):
        # worker scratch lives under the run's scratch root (removed by the runner when the check ends: pool
        # workers leave through os._exit and never run their own atexit handlers)
        root = os.environ.get("NAUNET_VERIF_SCRATCH")
        base = root if root and os.path.isdir(root) else ("/dev/shm" if os.access("/dev/shm", os.W_OK) else tempfile.gettempdir())
        _SCRATCH = Path(base) / f"naunet-verif-w-{os.getpid()}"
        _SCRATCH.mkdir(parents=True, exist_ok=True)
        import atexit

        atexit.register(shutil.rmtree, str(_SCRATCH), True)
    return _SCRATCH


def reset_globals() -> None:
    """Bring every process-global parser table back to its import-time state."""
    from naunet import chemistrydata
    from naunet.species import Species
    from naunet.reactions.kromereaction import KROMEReaction

    Species._known_elements.clear()
    Species._known_pseudoelements.clear()
    Species._replacement.clear()
    # reset() rebinds; keep both forms consistent
    Species.reset()
    chemistrydata.user_binding_energy.clear()
    chemistrydata.user_photon_yield.clear()
    chemistrydata.user_enthalpy.clear()
    for attr in ("_user_commons", "_user_vars", "reacformat"):
        if attr in KROMEReaction.__dict__:
            delattr(KROMEReaction, attr)


def quiet():
    logging.disable(logging.CRITICAL)
    return contextlib.redirect_stdout(io.StringIO())


def template_loader(solver, method, device):
    from naunet.templateloader import TemplateLoader

    key = (solver, method, device)
    tl = _TL_CACHE.get(key)
    if tl is None:
        tl = TemplateLoader(solver, method, device)
        _TL_CACHE[key] = tl
    return tl


def render(network, backend: str = "dense", templates=None, jac_pattern=False, name="naunet") -> dict[str, str]:
    """Render `network` for one back-end.  templates=None -> every template of the solver;
    'ode' -> macros + fex/jac (cvode) or macros + ode (odeint)."""
    solver, method, device = BACKENDS[backend]
    tl = template_loader(solver, method, device)
    if templates == "ode":
        templates = ODE_TEMPLATES[solver]
    out = Path(tempfile.mkdtemp(dir=scratch()))
    try:
        with quiet():
            tl.render(name, network, templates=templates, save=True, path=out, jac_pattern=jac_pattern)
        files = {}
        for p in out.rglob("*"):
            if p.is_file():
                files[str(p.relative_to(out))] = p.read_text()
        return files
    finally:
        shutil.rmtree(out, ignore_errors=True)
