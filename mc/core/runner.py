"""Runner: ./check <ID> --tier quick|thorough [--replay file]

Owns: tier/seed handling, the worker pool, violation bookkeeping (known
findings vs. new), replay files, evidence files (validated against the schema
before exit).  A property module exposes

    LEVEL   = "exploration" | "model_checking" | "fault_enumeration"
    def run(ctx) -> dict          # coverage dict (EVIDENCE.schema 'coverage')
    def replay(ctx, case) -> None # re-run one recorded case, report through ctx

and reports through ctx.violation(signature, what, case).
"""
from __future__ import annotations

import argparse
import hashlib
import importlib
import json
import os
import shutil
import sys
import tempfile
import time
import traceback
from pathlib import Path

VERIF = Path(__file__).resolve().parents[2]
REPO = Path(os.environ.get("NAUNET_REPO", "/repo"))
SCHEMA = Path("/root/.vp/EVIDENCE.schema.json")


class HarnessError(Exception):
    """The harness itself is wrong or incomplete (never reported as a naunet violation)."""


def scratch_root() -> Path:
    for base in ("/dev/shm", tempfile.gettempdir()):
        if os.path.isdir(base) and os.access(base, os.W_OK):
            p = Path(base) / f"naunet-verif-{os.getpid()}"
            p.mkdir(parents=True, exist_ok=True)
            return p
    raise HarnessError("no writable scratch directory")


class guarded:
    """wraps a worker function for multiprocessing pools: an exception that cannot be pickled (custom constructor
    arguments) would never reach the parent and the pool would wait for ever; it is re-raised as a RuntimeError that
    carries the original type, message and traceback frames"""

    def __init__(self, fn):
        self.fn = fn

    def __call__(self, item):
        try:
            return self.fn(item)
        except Exception as e:
            import pickle

            try:
                pickle.loads(pickle.dumps(e))
            except Exception:
                raise RuntimeError(f"{type(e).__name__}: {e}").with_traceback(e.__traceback__) from None
            raise


class Ctx:
    def __init__(self, prop_id: str, tier: str, seed: int, workers: int):
        self.prop_id = prop_id
        self.tier = tier
        self.seed = seed
        self.workers = workers
        self.t0 = time.time()
        self.scratch = scratch_root()
        os.environ["NAUNET_VERIF_SCRATCH"] = str(self.scratch)
        self._known = self._load_known()
        self._seen_sigs: dict[str, dict] = {}
        self.new_violations: list[tuple[str, str]] = []  # (sig, replay path)
        self.known_hits: dict[str, int] = {}
        self.assumptions: list[str] = []
        self.notes: list[str] = []
        self._pool = None

    # ---- known findings -------------------------------------------------
    def _load_known(self):
        p = VERIF / "known_findings.json"
        if not p.exists():
            return {}
        data = json.loads(p.read_text())
        out = {}
        for ent in data.get("findings", []):
            if ent.get("property") == self.prop_id and ent.get("status") == "open":
                out[ent["signature"]] = ent
        return out

    # ---- violations -------------------------------------------------------
    def violation(self, signature: str, what: str, case) -> None:
        """signature: deterministic classifier of the failing shape (specific input/
        call-site), what: one-line human text, case: JSON-able replay payload."""
        if signature in self._known:
            n = self.known_hits.get(signature, 0)
            self.known_hits[signature] = n + 1
            return
        if signature in self._seen_sigs:
            self._seen_sigs[signature]["count"] += 1
            return
        rdir = VERIF / "replays" / self.prop_id
        rdir.mkdir(parents=True, exist_ok=True)
        h = hashlib.sha1(signature.encode()).hexdigest()[:12]
        path = rdir / f"{h}.json"
        payload = {
            "property": self.prop_id,
            "signature": signature,
            "what": what,
            "case": case,
            "tier": self.tier,
            "seed": self.seed,
        }
        path.write_text(json.dumps(payload, indent=1, default=str))
        self._seen_sigs[signature] = {"count": 1, "path": str(path), "what": what}
        self.new_violations.append((signature, str(path)))
        print(f"VIOLATION property={self.prop_id} replay={path}", flush=True)
        print(f"  signature={signature}\n  what={what}", flush=True)

    def absorb(self, viols) -> None:
        """viols: iterable of (signature, what, case) coming back from workers."""
        for sig, what, case in viols:
            self.violation(sig, what, case)

    # ---- parallel map ------------------------------------------------------
    def pool(self):
        if self._pool is None:
            import multiprocessing as mp

            ctxmp = mp.get_context("fork")
            self._pool = ctxmp.Pool(self.workers, initializer=_worker_init)
        return self._pool

    def pmap(self, fn, items, chunksize=1):
        """Unordered parallel map over a *complete* list of work items."""
        if self.workers <= 1:
            _worker_init()
            for it in items:
                yield fn(it)
            return
        yield from self.pool().imap_unordered(guarded(fn), items, chunksize)

    def close(self):
        if self._pool is not None:
            self._pool.close()
            self._pool.join()
            self._pool = None
        shutil.rmtree(self.scratch, ignore_errors=True)

    # ---- evidence ----------------------------------------------------------
    def write_evidence(self, level: str, coverage: dict) -> Path:
        ev = {
            "property_id": self.prop_id,
            "tier": self.tier,
            "seed": self.seed,
            "level": level,
            "coverage": coverage,
            "assumptions": self.assumptions,
            "wall_s": round(time.time() - self.t0, 3),
            "violations": len(self.new_violations),
            "known_findings_hit": {k: v for k, v in sorted(self.known_hits.items())},
            "new_violation_signatures": [s for s, _ in self.new_violations][:50],
            "notes": self.notes,
        }
        validate_evidence(ev)
        # runs against another tree (seeded-change trials) never touch the committed evidence
        trial = str(REPO) != "/repo"
        p = VERIF / ("evidence-trial" if trial else "evidence") / f"{self.prop_id}.json"
        p.parent.mkdir(exist_ok=True)
        p.write_text(json.dumps(ev, indent=1, default=str) + "\n")
        return p


def _worker_init():
    os.environ["TQDM_DISABLE"] = "1"
    import logging

    logging.disable(logging.CRITICAL)


def validate_evidence(ev: dict) -> None:
    try:
        import jsonschema  # vendored by setup_cmd
    except Exception:
        # minimal structural check when the vendored validator is absent
        for k in ("property_id", "tier", "seed", "level", "coverage", "wall_s"):
            if k not in ev:
                raise HarnessError(f"evidence lacks {k}")
        return
    if SCHEMA.exists():
        schema = json.loads(SCHEMA.read_text())
    else:
        schema = json.loads((VERIF / "mc" / "core" / "EVIDENCE.schema.json").read_text())
    jsonschema.validate(ev, schema)


def main(argv=None) -> int:
    ap = argparse.ArgumentParser()
    ap.add_argument("prop")
    ap.add_argument("--tier", default=os.environ.get("VERIF_TIER", "quick"), choices=["quick", "thorough"])
    ap.add_argument("--replay", default=None)
    ap.add_argument("--workers", type=int, default=int(os.environ.get("VERIF_WORKERS", "0")) or (os.cpu_count() or 4))
    args = ap.parse_args(argv)
    try:
        seed = int(os.environ.get("VERIF_SEED", "0"))
    except ValueError:
        seed = 0

    os.environ["TQDM_DISABLE"] = "1"
    import logging

    logging.disable(logging.CRITICAL)

    pid = args.prop.upper()
    mod = importlib.import_module(f"mc.props.{pid.lower()}")
    ctx = Ctx(pid, args.tier, seed, args.workers)
    rc = 0
    try:
        if args.replay:
            payload = json.loads(Path(args.replay).read_text())
            mod.replay(ctx, payload["case"])
            if ctx.new_violations:
                rc = 1
            else:
                print(f"replay: no violation reproduced for {args.replay}")
        else:
            coverage = mod.run(ctx)
            for sig, n in sorted(ctx.known_hits.items()):
                ent = ctx._known[sig]
                print(f"KNOWN-FINDING: property={pid} {sig} :: {ent.get('what','')} (hit {n}x)")
            p = ctx.write_evidence(mod.LEVEL, coverage)
            print(
                f"{pid} tier={args.tier} seed={seed} evaluations={coverage.get('evaluations')} "
                f"states={coverage.get('states')} new_violations={len(ctx.new_violations)} "
                f"known={len(ctx.known_hits)} wall={time.time()-ctx.t0:.1f}s evidence={p}"
            )
            if ctx.new_violations:
                rc = 1
    except HarnessError as e:
        print(f"HARNESS-ERROR property={pid}: {e}", file=sys.stderr)
        traceback.print_exc()
        rc = 2
    except Exception as e:
        # An exception that escapes a check is the machinery's fault ('broken', exit 2) - unless it was raised inside
        # the library under test by an input every check feeds it successfully on the unchanged tree: then the
        # library refuses (or trips over) a legal input, which is reported as a violation with the traceback.
        tb_text = "".join(traceback.format_exception(type(e), e, e.__traceback__))
        cause = getattr(e, "__cause__", None)
        if cause is not None:
            tb_text += str(cause)
        frames = [ln.strip() for ln in tb_text.splitlines() if ln.strip().startswith("File ")]
        last = frames[-1] if frames else ""
        lib = str(REPO / "naunet") + "/"
        if lib in last and not isinstance(e, (MemoryError, KeyboardInterrupt)):
            import re as _re

            fn = (_re.search(r", in (\S+)", last) or [None, "?"])[1]
            fl = (_re.search(r'File "([^"]+)"', last) or [None, "?"])[1].replace(lib, "")
            ctx.violation(f"{pid}:library-raises:{type(e).__name__}:{fl}:{fn}", f"{type(e).__name__}: {str(e)[:200]} raised inside naunet/{fl} ({fn}) while the check was feeding it its usual inputs", {"exception": tb_text[-3000:]})
            try:
                ctx.write_evidence(getattr(mod, "LEVEL", "exploration"), {"evaluations": 0, "note": "aborted by an exception raised inside the library"})
            except Exception:
                pass
            rc = 1
        else:
            print(f"HARNESS-ERROR property={pid}: {type(e).__name__}: {e}", file=sys.stderr)
            traceback.print_exc()
            rc = 2
    finally:
        ctx.close()
    return rc


if __name__ == "__main__":
    sys.exit(main())
