"""E2 - explicit-state breadth-first explorer over *real objects*.

A state is the operation history that reaches it.  `step(history)` is executed in a
worker: it builds fresh real objects, replays the history through the real methods,
evaluates the invariants on the state reached *through this transition* and returns
(canonical key, violations, info).  States are de-duplicated by canonical key; the
first history reaching a key is its representative for the next level.  Every
(state, operation) pair of every explored level is executed: counts are exact.
"""
from __future__ import annotations

from dataclasses import dataclass, field


@dataclass
class BfsResult:
    states: int = 0
    transitions: int = 0
    disabled: int = 0
    depth_completed: int = 0
    per_level: list = field(default_factory=list)
    outcomes: set = field(default_factory=set)
    samples: list = field(default_factory=list)
    graph_edges: list = field(default_factory=list)


def explore(ctx, menu, step, max_depth, keep_edges=2000):
    """menu: list of operation ids; step((history tuple)) -> dict(key=..., viols=[...], enabled=bool, outcome=...)"""
    res = BfsResult()
    root = step(())
    seen = {root["key"]: ()}
    ctx.absorb(root["viols"])
    res.states = 1
    frontier = [()]
    for depth in range(1, max_depth + 1):
        work = [h + (op,) for h in frontier for op in menu]
        nxt = []
        ntrans = 0
        outs = sorted(ctx.pmap(step, work, chunksize=8), key=lambda o: o["history"])
        for out in outs:
            if not out["enabled"]:
                res.disabled += 1
                continue
            ntrans += 1
            ctx.absorb(out["viols"])
            res.outcomes.add(out.get("outcome"))
            if len(res.graph_edges) < keep_edges:
                res.graph_edges.append((out["history"][:-1], out["history"][-1], out["key"]))
            if out["key"] not in seen:
                seen[out["key"]] = out["history"]
                nxt.append(out["history"])
        res.transitions += ntrans
        res.states = len(seen)
        res.per_level.append({"depth": depth, "transitions": ntrans, "new_states": len(nxt)})
        res.depth_completed = depth
        # deterministic order of the next frontier (imap_unordered is not ordered)
        frontier = sorted(nxt)
        if not frontier:
            break
    hs = sorted(seen.values(), key=lambda h: (len(h), h))
    res.samples = [list(h) for h in hs[:: max(1, len(hs) // 6)][:6]]
    return res
