"""Exact Laurent-polynomial normal form of an emitted C expression.

A polynomial is dict[monomial -> Fraction]; a monomial is a sorted tuple of
(symbol, exponent) with non-zero integer exponents.  Symbols are strings:
  'y:<slot>'  'k:<i>' 'kh:<i>' 'kc:<i>' 'ab:<slot>' 'rptr:<i>'  plain names,
  and '@<canonical text>' for opaque sub-expressions (calls, ternaries, a
  division by a non-monomial).
Equality of normal forms decides equality for all valuations of the symbols.
"""
from __future__ import annotations

from fractions import Fraction

from .cexpr import const_int, is_int_literal, unparse


class PolyError(Exception):
    pass


def const(c) -> dict:
    c = Fraction(c)
    return {(): c} if c else {}


def sym(name: str) -> dict:
    return {((name, 1),): Fraction(1)}


def add(a: dict, b: dict, sign=1) -> dict:
    out = dict(a)
    for m, c in b.items():
        v = out.get(m, 0) + sign * c
        if v:
            out[m] = v
        else:
            out.pop(m, None)
    return out


def _mulmono(m1, m2):
    d = dict(m1)
    for s, e in m2:
        v = d.get(s, 0) + e
        if v:
            d[s] = v
        else:
            d.pop(s, None)
    return tuple(sorted(d.items()))


def mul(a: dict, b: dict) -> dict:
    out: dict = {}
    for m1, c1 in a.items():
        for m2, c2 in b.items():
            m = _mulmono(m1, m2)
            v = out.get(m, 0) + c1 * c2
            if v:
                out[m] = v
            else:
                out.pop(m, None)
    return out


def neg(a: dict) -> dict:
    return {m: -c for m, c in a.items()}


def inv_monomial(a: dict) -> dict:
    if len(a) != 1:
        raise PolyError("division by a non-monomial")
    ((m, c),) = a.items()
    if c == 0:
        raise ZeroDivisionError("division by literal zero")
    return {tuple((s, -e) for s, e in m): 1 / c}


def diff(a: dict, s: str) -> dict:
    out: dict = {}
    for m, c in a.items():
        d = dict(m)
        e = d.get(s)
        if not e:
            continue
        if e == 1:
            d.pop(s)
        else:
            d[s] = e - 1
        mm = tuple(sorted(d.items()))
        v = out.get(mm, 0) + c * e
        if v:
            out[mm] = v
        else:
            out.pop(mm, None)
    return out


def symbols(a: dict) -> set:
    return {s for m in a for s, _ in m}


def show(a: dict) -> str:
    if not a:
        return "0"
    parts = []
    for m, c in sorted(a.items()):
        ms = "*".join(f"{s}^{e}" if e != 1 else s for s, e in m)
        parts.append(f"{c}" + (f"*{ms}" if ms else ""))
    return " + ".join(parts)


def evaluate(a: dict, val) -> Fraction:
    """val: callable symbol -> Fraction"""
    tot = Fraction(0)
    for m, c in a.items():
        t = c
        for s, e in m:
            t *= Fraction(val(s)) ** e
        tot += t
    return tot


ARRAYS = ("y", "ydot", "k", "kh", "kc", "ab", "rptr", "y_cur", "data")


def to_poly(e, macros: dict[str, int], array_alias: dict[str, str] | None = None) -> dict:
    """AST -> Laurent polynomial.  Array subscripts are constant-evaluated through
    the *rendered* macros (so the alias->slot binding is part of what is observed)."""
    alias = array_alias or {}
    t = e[0]
    if t == "num":
        txt = e[1].rstrip("fFlLuU")
        return const(Fraction(txt))
    if t == "var":
        return sym(e[1])
    if t == "idx":
        base = e[1]
        if base[0] == "var":
            i = const_int(e[2], macros)
            name = alias.get(base[1], base[1])
            return sym(f"{name}:{i}")
        return sym("@" + unparse(e))
    if t in ("call", "tern", "mem", "not", "cast"):
        return sym("@" + unparse(e))
    if t == "neg":
        return neg(to_poly(e[1], macros, alias))
    if t == "pos":
        return to_poly(e[1], macros, alias)
    if t == "bin":
        op = e[1]
        if op in ("+", "-"):
            return add(to_poly(e[2], macros, alias), to_poly(e[3], macros, alias), 1 if op == "+" else -1)
        if op == "*":
            return mul(to_poly(e[2], macros, alias), to_poly(e[3], macros, alias))
        if op == "/":
            # C typing: int/int would truncate; naunet never emits it in ODE text, refuse it
            if e[2][0] == "num" and e[3][0] == "num" and is_int_literal(e[2][1]) and is_int_literal(e[3][1]):
                raise PolyError(f"integer division {unparse(e)} in polynomial context")
            den = to_poly(e[3], macros, alias)
            if not den:
                raise ZeroDivisionError(f"division by literal zero in {unparse(e)}")
            if len(den) != 1:
                den = sym("@" + unparse(e[3]))
            return mul(to_poly(e[2], macros, alias), inv_monomial(den))
        return sym("@" + unparse(e))
    raise PolyError(f"cannot normalise {e!r}")
