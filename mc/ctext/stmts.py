"""Statement-level reader for the generated sources (E4, second half).

Nothing here guesses: an unknown statement *shape* inside a region a check asks
to read raises HarnessError (the check is then 'broken', never 'VIOLATION').
"""
from __future__ import annotations

import re

from ..core.runner import HarnessError
from .cexpr import CSyntaxError, const_int, parse_expr


def strip_comments(text: str) -> str:
    text = re.sub(r"/\*.*?\*/", " ", text, flags=re.S)
    text = re.sub(r"//[^\n]*", "", text)
    return text


# ---------------------------------------------------------------------------
class Macros:
    """Object-like macros of a rendered header, evaluated lazily as constant ints."""

    def __init__(self):
        self.text: dict[str, str] = {}
        self.order: list[str] = []
        self.funclike: set[str] = set()
        self.redefined: list[str] = []
        self._cache: dict[str, int] = {}

    def define(self, name, body):
        if name in self.text and self.text[name] != body:
            self.redefined.append(name)
        if name not in self.text:
            self.order.append(name)
        self.text[name] = body
        self._cache.clear()

    def __contains__(self, name):
        return name in self.text

    def value(self, name: str, _stack=()) -> int:
        if name in self._cache:
            return self._cache[name]
        if name in _stack:
            raise HarnessError(f"recursive macro {name}")
        body = self.text[name].strip()
        if body == "":
            raise KeyError(name)
        v = const_int(parse_expr(body), _Lazy(self, _stack + (name,)))
        self._cache[name] = v
        return v

    def as_dict(self) -> "_Lazy":
        return _Lazy(self, ())


class _Lazy(dict):
    def __init__(self, m: Macros, stack):
        super().__init__()
        self.m = m
        self.stack = stack

    def __contains__(self, k):
        return k in self.m.text and self.m.text[k].strip() != ""

    def __getitem__(self, k):
        return self.m.value(k, self.stack)

    def get(self, k, d=None):
        return self[k] if k in self else d


_DEF = re.compile(r"^\s*#\s*define\s+([A-Za-z_]\w*)(\([^)]*\))?\s*(.*)$")


def preprocess(text: str, macros: Macros | None = None, defines_into: Macros | None = None) -> str:
    """Tiny C preprocessor: honours #if/#ifdef/#ifndef/#elif/#else/#endif using the
    given macros (undefined identifiers evaluate to 0, as in C), records #define,
    drops #include, joins backslash continuations.  Returns the active text."""
    macros = macros or Macros()
    sink = defines_into if defines_into is not None else macros
    text = strip_comments(text).replace("\\\n", " ")
    out = []
    stack = []  # (active_before, taken, active_now)
    active = True

    def ev(expr: str) -> bool:
        expr = re.sub(r"defined\s*\(\s*(\w+)\s*\)", lambda m: "1" if m.group(1) in macros.text else "0", expr)
        expr = re.sub(r"defined\s+(\w+)", lambda m: "1" if m.group(1) in macros.text else "0", expr)

        class Z(dict):
            def __contains__(s, k):
                return True

            def __getitem__(s, k):
                try:
                    return macros.value(k)
                except KeyError:
                    return 0

        return bool(const_int(parse_expr(expr), Z()))

    for line in text.split("\n"):
        s = line.strip()
        if s.startswith("#"):
            d = s[1:].strip()
            if d.startswith("ifdef"):
                stack.append((active, None, None))
                cond = d.split()[1] in macros.text
                stack[-1] = (active, cond, None)
                active = active and cond
            elif d.startswith("ifndef"):
                cond = d.split()[1] not in macros.text
                stack.append((active, cond, None))
                active = active and cond
            elif d.startswith("if"):
                cond = ev(d[2:]) if active else False
                stack.append((active, cond, None))
                active = active and cond
            elif d.startswith("elif"):
                before, taken, _ = stack[-1]
                cond = (not taken) and before and ev(d[4:])
                stack[-1] = (before, taken or cond, None)
                active = before and cond
            elif d.startswith("else"):
                before, taken, _ = stack[-1]
                active = before and not taken
                stack[-1] = (before, True, None)
            elif d.startswith("endif"):
                before, _, _ = stack.pop()
                active = before
            elif d.startswith("define"):
                if active:
                    m = _DEF.match(s)
                    if not m:
                        raise HarnessError(f"unreadable #define: {s}")
                    if m.group(2):
                        sink.funclike.add(m.group(1))
                    else:
                        sink.define(m.group(1), m.group(3))
            elif d.startswith(("include", "pragma", "undef", "error")):
                pass
            else:
                raise HarnessError(f"unknown preprocessor line: {s}")
            continue
        if active:
            out.append(line)
    if stack:
        raise HarnessError("unbalanced #if")
    return "\n".join(out)


def read_macros(header_text: str) -> Macros:
    m = Macros()
    preprocess(header_text, m)
    return m


# ---------------------------------------------------------------------------
def find_function_body(text: str, head_regex: str) -> str:
    """Return the text between the braces of the first function whose header
    matches head_regex (searched in comment-free text)."""
    m = re.search(head_regex, text)
    if not m:
        raise HarnessError(f"function {head_regex!r} not found")
    i = text.index("{", m.end() - 1) if text[m.end() - 1] != "{" else m.end() - 1
    depth = 0
    for j in range(i, len(text)):
        c = text[j]
        if c == "{":
            depth += 1
        elif c == "}":
            depth -= 1
            if depth == 0:
                return text[i + 1 : j]
    raise HarnessError("unbalanced braces")


def split_statements(body: str):
    """-> list of ('stmt', text) | ('if', cond, [..], else[..]|None) | ('for', head, [..]) | ('block',[..])"""
    pos = 0
    n = len(body)
    out = []

    def skip_ws(p):
        while p < n and body[p].isspace():
            p += 1
        return p

    def match_paren(p):
        assert body[p] == "("
        d = 0
        for q in range(p, n):
            if body[q] == "(":
                d += 1
            elif body[q] == ")":
                d -= 1
                if d == 0:
                    return q
        raise HarnessError("unbalanced parenthesis")

    def match_brace(p):
        assert body[p] == "{"
        d = 0
        for q in range(p, n):
            if body[q] == "{":
                d += 1
            elif body[q] == "}":
                d -= 1
                if d == 0:
                    return q
        raise HarnessError("unbalanced brace")

    def one(p):
        """parse one statement starting at p -> (node, newpos)"""
        p = skip_ws(p)
        if p >= n:
            return None, p
        m = re.match(r"(if|for|while)\b\s*\(", body[p:])
        if m:
            kw = m.group(1)
            lp = p + m.end() - 1
            rp = match_paren(lp)
            head = body[lp + 1 : rp]
            q = skip_ws(rp + 1)
            if q < n and body[q] == "{":
                rb = match_brace(q)
                inner = split_statements(body[q + 1 : rb])
                q2 = rb + 1
            else:
                node, q2 = one(q)
                inner = [node]
            if kw == "if":
                r = skip_ws(q2)
                me = re.match(r"else\b", body[r:])
                if me:
                    r2 = skip_ws(r + me.end())
                    if body[r2] == "{":
                        rb = match_brace(r2)
                        els = split_statements(body[r2 + 1 : rb])
                        return ("if", head, inner, els), rb + 1
                    node, r3 = one(r2)
                    return ("if", head, inner, [node]), r3
                return ("if", head, inner, None), q2
            return (kw, head, inner), q2
        if body[p] == "{":
            rb = match_brace(p)
            return ("block", split_statements(body[p + 1 : rb])), rb + 1
        # simple statement up to ';' at depth 0 (braces inside initialisers allowed)
        d = 0
        q = p
        while q < n:
            c = body[q]
            if c in "({[":
                d += 1
            elif c in ")}]":
                d -= 1
            elif c == ";" and d == 0:
                break
            q += 1
        if q >= n:
            txt = body[p:].strip()
            if txt:
                raise HarnessError(f"statement without terminator: {txt[:120]!r}")
            return None, n
        txt = " ".join(body[p:q].split())
        return ("stmt", txt), q + 1

    while True:
        node, pos = one(pos)
        if node is None:
            break
        if node[0] == "stmt" and node[1] == "":
            continue
        out.append(node)
    return out


_DECL = re.compile(
    r"^(?:const\s+|static\s+)*(realtype|double|float|int|sunindextype|size_t|unsigned|NaunetData|cudaStream_t|cudaError_t|N_Vector|SUNMatrix)\s*(\**)\s*([A-Za-z_]\w*)\s*(\[[^\]]*\])?\s*(?:=\s*(.*))?$",
    re.S,
)


def classify(stmt: str):
    """-> ('decl', type, ptr, name, arraysize_text|None, init_text|None)
          ('assign', lhs_text, rhs_text)
          ('return', text) | ('call', text)"""
    s = stmt.strip()
    if s.startswith("return"):
        return ("return", s[6:].strip())
    m = _DECL.match(s)
    if m:
        return ("decl", m.group(1), m.group(2), m.group(3), m.group(4)[1:-1] if m.group(4) else None, m.group(5))
    # assignment: find top-level '=' that is not part of ==, <=, >=, !=
    d = 0
    for i, c in enumerate(s):
        if c in "([{":
            d += 1
        elif c in ")]}":
            d -= 1
        elif c == "=" and d == 0:
            prev = s[i - 1] if i else ""
            nxt = s[i + 1] if i + 1 < len(s) else ""
            if prev in "<>!=" or nxt == "=":
                continue
            lhs = s[:i].rstrip()
            op = ""
            if lhs and lhs[-1] in "+-*/":
                op = lhs[-1]
                lhs = lhs[:-1].rstrip()
            return ("assign" + op, lhs, s[i + 1 :].strip())
    if re.match(r"^[A-Za-z_][\w:]*\s*(<<<.*>>>)?\s*\(", s):
        return ("call", s)
    raise HarnessError(f"unknown statement shape: {s[:160]!r}")
