"""Read the ODE right-hand side / Jacobian text of one rendered back-end into exact
polynomials plus layout information.  Every subscript met on the way is
constant-evaluated through the rendered macros and recorded for the bounds check."""
from __future__ import annotations

import re
from dataclasses import dataclass, field

from ..core.runner import HarnessError
from . import poly as P
from .cexpr import CSyntaxError, const_int, parse_expr, unparse
from .stmts import Macros, classify, find_function_body as _find_function_body, preprocess, read_macros, split_statements


def find_function_body(text, head_regex):
    """the entry points of a back-end are part of what is rendered for it: sources that lack one (e.g. the CPU routine
    where the CUDA kernel belongs) are the generated code's defect, reported like a statement that is not C"""
    from ..core.runner import HarnessError

    try:
        return _find_function_body(text, head_regex)
    except HarnessError as e:
        if "not found" in str(e):
            raise NotC(f"<sources of this back-end: function matching {head_regex}>", "the function this back-end's solver calls is not among the rendered sources")
        raise


class NotC(Exception):
    """An emitted expression inside a recognised statement is not a C expression
    E4 accepts; carries the statement for confirmation by g++."""

    def __init__(self, stmt, why):
        super().__init__(why)
        self.stmt = stmt
        self.why = why

    def __reduce__(self):
        # picklable: raised inside pool workers (an exception that cannot be rebuilt in the parent hangs the pool)
        return (NotC, (self.stmt, self.why))


@dataclass
class OdeText:
    backend: str
    macros: Macros
    neq: int
    nspec: int
    nreac: int
    nnz_macro: int
    ydot: dict = field(default_factory=dict)  # slot -> poly
    ydot_order: list = field(default_factory=list)  # slots in emission order (with repeats)
    jac: dict = field(default_factory=dict)  # (r,c) -> poly
    jac_order: list = field(default_factory=list)
    rowptrs: list | None = None
    colvals: list | None = None
    data_idx: list | None = None  # indices n of data[n] in emission order
    subscripts: list = field(default_factory=list)  # (function, array, index, declared_size)
    decls: dict = field(default_factory=dict)  # function -> {name: size or None}
    scalar_init: dict = field(default_factory=dict)  # function -> {scalar name: initialiser text}
    batch: dict = field(default_factory=dict)  # kernel -> {yistart / jistart / y_cur / udata: initialiser text}
    lhs_offsets: dict = field(default_factory=dict)  # kernel -> set of offset names used in ydot[...] / data[...] targets
    k_init: dict = field(default_factory=dict)  # function -> {array: init text}
    raw: dict = field(default_factory=dict)


_ARR_SIZE_MACRO = {
    "y": "NEQUATIONS",
    "y_cur": "NEQUATIONS",
    "ydot": "NEQUATIONS",
    "abund": "NEQUATIONS",
    "dfdt": "NEQUATIONS",
    "k": "NREACTIONS",
    "kh": "NHEATPROCS",
    "kc": "NCOOLPROCS",
}


def _collect_subscripts(ast, fn, macros, sink, local_sizes):
    t = ast[0]
    if t == "idx":
        base = ast[1]
        if base[0] == "var":
            try:
                i = const_int(ast[2], macros)
            except (KeyError, ValueError):
                i = None
            name = base[1]
            size = local_sizes.get(name)
            sink.append((fn, name, i, size, unparse(ast[2])))
        _collect_subscripts(ast[2], fn, macros, sink, local_sizes)
        if base[0] != "var":
            _collect_subscripts(base, fn, macros, sink, local_sizes)
        return
    for ch in ast[1:]:
        if isinstance(ch, tuple):
            _collect_subscripts(ch, fn, macros, sink, local_sizes)
        elif isinstance(ch, list):
            for c in ch:
                if isinstance(c, tuple):
                    _collect_subscripts(c, fn, macros, sink, local_sizes)


def _expr(text, stmt):
    try:
        return parse_expr(text)
    except CSyntaxError as e:
        raise NotC(stmt, str(e))


def _walk(nodes):
    for n in nodes:
        if n[0] == "stmt":
            yield n[1]
        elif n[0] == "if":
            yield from _walk(n[2])
            if n[3]:
                yield from _walk(n[3])
        elif n[0] in ("for", "while"):
            yield from _walk(n[2])
        elif n[0] == "block":
            yield from _walk(n[1])


def _read_body(ot: OdeText, fn: str, body: str, mdict, alias):
    """Classify every statement of a Fex/Jac body; fill ydot/jac/arrays."""
    sizes = {}
    for arr, mac in _ARR_SIZE_MACRO.items():
        try:
            sizes[arr] = ot.macros.value(mac)
        except KeyError:
            pass
    sizes["data"] = ot.nnz_macro
    sizes["colvals"] = ot.nnz_macro
    sizes["rowptrs"] = ot.neq + 1
    ot.decls[fn] = {}
    ot.k_init[fn] = {}
    for s in _walk(split_statements(body)):
        kind = classify(s)
        if kind[0] == "decl":
            _, typ, ptr, name, arrsz, init = kind
            if arrsz is not None:
                try:
                    sz = const_int(parse_expr(arrsz), mdict)
                except Exception as e:
                    raise HarnessError(f"array size {arrsz!r} not constant: {e}")
                ot.decls[fn][name] = sz
                sizes[name] = sz
                if init is not None and init.strip().startswith("{"):
                    inner = init.strip()[1:-1]
                    ot.k_init[fn][name] = " ".join(inner.split())
                    if name in ("rowptrs", "colvals"):
                        vals = [const_int(parse_expr(x), mdict) for x in inner.split(",") if x.strip()]
                        if name == "rowptrs":
                            ot.rowptrs = vals
                        else:
                            ot.colvals = vals
                        ot.decls[fn][name + "#init"] = len(vals)
            else:
                ot.decls[fn][name] = None
                if init is not None and not init.strip().startswith("{"):
                    ot.scalar_init.setdefault(fn, {})[name] = " ".join(init.split())
                if init is not None and name in ("yistart", "jistart", "y_cur", "udata", "tidx", "gs"):
                    # batch layout of the CUDA kernels: which window of the flat arrays system `cur` owns
                    ot.batch.setdefault(fn, {})[name] = " ".join(init.split())
                if init is not None and not ptr and not init.strip().startswith("{"):
                    ast = _expr(init, s)
                    _collect_subscripts(ast, fn, mdict, ot.subscripts, sizes)
            continue
        if kind[0] in ("return", "call"):
            continue
        if kind[0].startswith("assign"):
            lhs, rhs = kind[1], kind[2]
            m = re.match(r"^(ydot)\s*\[(.*)\]$", lhs)
            if m:
                idx_ast = _expr(m.group(2), s)
                # cusparse kernel: ydot[yistart + IDX_X]
                itxt = m.group(2)
                ot.lhs_offsets.setdefault(fn, set()).add("yistart" if "yistart" in itxt else "")
                if "yistart" in itxt:
                    idx_ast = _expr(re.sub(r"yistart\s*\+", "", itxt), s)
                slot = const_int(idx_ast, mdict)
                ot.subscripts.append((fn, "ydot", slot, sizes.get("ydot"), m.group(2)))
                rast = _expr(rhs, s)
                _collect_subscripts(rast, fn, mdict, ot.subscripts, sizes)
                try:
                    p = P.to_poly(rast, mdict, alias)
                except ZeroDivisionError as e:
                    raise NotC(s, f"division by literal zero: {e}")
                ot.ydot_order.append(slot)
                ot.ydot[slot] = p if slot not in ot.ydot else P.add(ot.ydot[slot], {(("@@dup", 1),): 1})
                ot.raw[("ydot", slot)] = s
                continue
            m = re.match(r"^(IJth\s*\(\s*jmatrix\s*,|j\s*\()(.*)\)$", lhs)
            if m:
                parts = m.group(2).split(",")
                if len(parts) != 2:
                    raise HarnessError(f"Jacobian lhs {lhs!r}")
                r = const_int(_expr(parts[0], s), mdict)
                c = const_int(_expr(parts[1], s), mdict)
                rast = _expr(rhs, s)
                _collect_subscripts(rast, fn, mdict, ot.subscripts, sizes)
                ot.subscripts.append((fn, "jac.row", r, ot.neq, parts[0].strip()))
                ot.subscripts.append((fn, "jac.col", c, ot.neq, parts[1].strip()))
                ot.jac_order.append((r, c))
                p = P.to_poly(rast, mdict, alias)
                ot.jac[(r, c)] = p if (r, c) not in ot.jac else P.add(ot.jac[(r, c)], {(("@@dup", 1),): 1})
                ot.raw[("jac", r, c)] = s
                continue
            m = re.match(r"^(rowptrs|colvals|data)\s*\[(.*)\]$", lhs)
            if m:
                arr = m.group(1)
                itxt = m.group(2)
                if arr == "data":
                    ot.lhs_offsets.setdefault(fn, set()).add("jistart" if "jistart" in itxt else "")
                if "jistart" in itxt:
                    itxt = re.sub(r"jistart\s*\+", "", itxt)
                n = const_int(_expr(itxt, s), mdict)
                ot.subscripts.append((fn, arr, n, sizes.get(arr), m.group(2)))
                if arr == "data":
                    rast = _expr(rhs, s)
                    _collect_subscripts(rast, fn, mdict, ot.subscripts, sizes)
                    if ot.data_idx is None:
                        ot.data_idx = []
                    ot.data_idx.append(n)
                    ot.raw[("data", n)] = (s, P.to_poly(rast, mdict, alias))
                else:
                    v = const_int(_expr(rhs, s), mdict)
                    tgt = "rowptrs" if arr == "rowptrs" else "colvals"
                    cur = getattr(ot, tgt)
                    if cur is None:
                        cur = []
                        setattr(ot, tgt, cur)
                    if n != len(cur):
                        # out-of-order fill: keep as dict-like semantic by padding
                        while len(cur) <= n:
                            cur.append(None)
                        cur[n] = v
                    else:
                        cur.append(v)
                continue
            m = re.match(r"^(y|dfdt)\s*\[\s*i\s*\]$", lhs)
            if m:
                continue  # copy loops 'y[i] = abund[i]' / 'dfdt[i] = 0.0'
            if re.match(r"^(mu|gamma|j)$", lhs):
                if lhs != "j":
                    _collect_subscripts(_expr(rhs, s), fn, mdict, ot.subscripts, sizes)
                continue
            raise HarnessError(f"unknown assignment target in {fn}: {s[:160]!r}")
        raise HarnessError(f"unhandled statement in {fn}: {s[:160]!r}")


def read_ode(files: dict, backend: str) -> OdeText:
    mh = files["include/naunet_macros.h"]
    macros = read_macros(mh)
    md = macros.as_dict()
    neq = macros.value("NEQUATIONS")
    ot = OdeText(
        backend,
        macros,
        neq,
        macros.value("NSPECIES"),
        macros.value("NREACTIONS"),
        macros.value("NNZ"),
    )
    alias = {"y_cur": "y"}
    if backend in ("dense", "sparse"):
        fex = preprocess(files["src/naunet_fex.cpp"], macros, Macros())
        jac = preprocess(files["src/naunet_jac.cpp"], macros, Macros())
        _read_body(ot, "Fex", find_function_body(fex, r"\bint\s+Fex\s*\("), md, alias)
        _read_body(ot, "Jac", find_function_body(jac, r"\bint\s+Jac\s*\("), md, alias)
    elif backend == "cusparse":
        fex = preprocess(files["src/naunet_fex.cu"], macros, Macros())
        jac = preprocess(files["src/naunet_jac.cu"], macros, Macros())
        _read_body(ot, "FexKernel", find_function_body(fex, r"\bvoid\s+FexKernel\s*\("), md, alias)
        _read_body(ot, "InitJac", find_function_body(jac, r"\bint\s+InitJac\s*\("), md, alias)
        _read_body(ot, "JacKernel", find_function_body(jac, r"\bvoid\s+JacKernel\s*\("), md, alias)
    elif backend == "rosenbrock4":
        ode = preprocess(files["src/naunet_ode.cpp"], macros, Macros())
        _read_body(ot, "Fex", find_function_body(ode, r"\bvoid\s+Fex::operator\(\)\s*\("), md, alias)
        _read_body(ot, "Jac", find_function_body(ode, r"\bvoid\s+Jac::operator\(\)\s*\("), md, alias)
    else:
        raise HarnessError(backend)
    # sparse layouts: build (r,c)->poly from CSR triplet
    if backend in ("sparse", "cusparse"):
        ot.jac = csr_entries(ot)
    return ot


def csr_entries(ot: OdeText) -> dict:
    """(row, col) -> poly from rowptrs/colvals/data.  Structural problems are not
    raised here (C03 judges them); entries that cannot be placed are keyed ('?', n)."""
    out = {}
    rp = ot.rowptrs or []
    cv = ot.colvals or []
    for n in ot.data_idx or []:
        s, p = ot.raw[("data", n)]
        row = None
        for r in range(len(rp) - 1):
            if rp[r] is not None and rp[r + 1] is not None and rp[r] <= n < rp[r + 1]:
                row = r
                break
        col = cv[n] if n < len(cv) else None
        key = (row, col) if row is not None and col is not None else ("?", n)
        out[key] = p if key not in out else P.add(out[key], {(("@@dup", 1),): 1})
    return out
