"""E4 - reader for the C expression subset naunet emits.

AST nodes (tuples):
  ('num', text)              numeric literal (text kept: int vs double typing)
  ('var', name)
  ('idx', base, index)       a[i]
  ('call', name, [args])
  ('mem', base, name)        p->name / p.name
  ('neg', e) ('pos', e) ('not', e)
  ('bin', op, l, r)          op in + - * / < > <= >= == != && ||
  ('tern', c, a, b)
  ('cast', type, e)          (realtype)e / (double)e / (int)e  [rare]
"""
from __future__ import annotations

import math
import re
from fractions import Fraction


class CSyntaxError(Exception):
    pass


_TOKEN = re.compile(
    r"""
    (?P<ws>\s+)
  | (?P<num>(?:\d+\.\d*|\.\d+|\d+)(?:[eE][+-]?\d+)?[fFlLuU]*)
  | (?P<id>[A-Za-z_][A-Za-z0-9_]*)
  | (?P<op>\+\+|--|->|<=|>=|==|!=|&&|\|\||[-+*/%()\[\],?:<>!=;{}.&|^~])
  """,
    re.X,
)


def tokenize(text: str):
    pos = 0
    out = []
    n = len(text)
    while pos < n:
        m = _TOKEN.match(text, pos)
        if not m:
            raise CSyntaxError(f"unexpected character {text[pos]!r} at {pos} in {text[:80]!r}")
        pos = m.end()
        kind = m.lastgroup
        if kind == "ws":
            continue
        out.append((kind, m.group(kind)))
    out.append(("eof", ""))
    return out


_BINPREC = {
    "||": 1,
    "&&": 2,
    "==": 5,
    "!=": 5,
    "<": 6,
    ">": 6,
    "<=": 6,
    ">=": 6,
    "+": 8,
    "-": 8,
    "*": 9,
    "/": 9,
    "%": 9,
}
_TYPES = {"realtype", "double", "int", "float", "sunindextype"}


class Parser:
    def __init__(self, text: str):
        self.text = text
        self.toks = tokenize(text)
        self.i = 0

    def peek(self):
        return self.toks[self.i]

    def next(self):
        t = self.toks[self.i]
        self.i += 1
        return t

    def expect(self, val):
        k, v = self.next()
        if v != val:
            raise CSyntaxError(f"expected {val!r} got {v!r} in {self.text[:120]!r}")

    def parse(self):
        e = self.ternary()
        if self.peek()[0] != "eof":
            raise CSyntaxError(f"trailing {self.peek()[1]!r} in {self.text[:120]!r}")
        return e

    def ternary(self):
        c = self.binary(1)
        if self.peek()[1] == "?":
            self.next()
            a = self.ternary()
            self.expect(":")
            b = self.ternary()
            return ("tern", c, a, b)
        return c

    def binary(self, minprec):
        left = self.unary()
        while True:
            k, v = self.peek()
            p = _BINPREC.get(v) if k == "op" else None
            if p is None or p < minprec:
                return left
            self.next()
            right = self.binary(p + 1)
            left = ("bin", v, left, right)

    def unary(self):
        k, v = self.peek()
        if k == "op" and v in ("-", "+", "!"):
            self.next()
            e = self.unary()
            return ({"-": "neg", "+": "pos", "!": "not"}[v], e)
        if k == "op" and v in ("--", "++"):
            raise CSyntaxError(f"operator fusion {v!r} in {self.text[:120]!r}")
        return self.postfix()

    def postfix(self):
        e = self.primary()
        while True:
            k, v = self.peek()
            if v == "[":
                self.next()
                i = self.ternary()
                self.expect("]")
                e = ("idx", e, i)
            elif v == "(" and e[0] == "var":
                self.next()
                args = []
                if self.peek()[1] != ")":
                    args.append(self.ternary())
                    while self.peek()[1] == ",":
                        self.next()
                        args.append(self.ternary())
                self.expect(")")
                e = ("call", e[1], args)
            elif v in ("->", "."):
                self.next()
                k2, name = self.next()
                if k2 != "id":
                    raise CSyntaxError(f"member name expected in {self.text[:120]!r}")
                e = ("mem", e, name)
            elif v in ("--", "++"):
                raise CSyntaxError(f"operator fusion {v!r} in {self.text[:120]!r}")
            else:
                return e

    def primary(self):
        k, v = self.next()
        if k == "num":
            return ("num", v)
        if k == "id":
            return ("var", v)
        if v == "(":
            # cast?
            k2, v2 = self.peek()
            if k2 == "id" and v2 in _TYPES and self.toks[self.i + 1][1] == ")":
                self.next()
                self.next()
                return ("cast", v2, self.unary())
            e = self.ternary()
            self.expect(")")
            return e
        raise CSyntaxError(f"unexpected token {v!r} in {self.text[:120]!r}")


def parse_expr(text: str):
    return Parser(text).parse()


# ---------------------------------------------------------------------------
# canonical text of an AST (used as key for opaque symbols)
def unparse(e) -> str:
    t = e[0]
    if t == "num":
        return e[1]
    if t == "var":
        return e[1]
    if t == "idx":
        return f"{unparse(e[1])}[{unparse(e[2])}]"
    if t == "call":
        return f"{e[1]}({', '.join(unparse(a) for a in e[2])})"
    if t == "mem":
        return f"{unparse(e[1])}->{e[2]}"
    if t == "neg":
        return f"(-{unparse(e[1])})"
    if t == "pos":
        return f"(+{unparse(e[1])})"
    if t == "not":
        return f"(!{unparse(e[1])})"
    if t == "bin":
        return f"({unparse(e[2])} {e[1]} {unparse(e[3])})"
    if t == "tern":
        return f"({unparse(e[1])} ? {unparse(e[2])} : {unparse(e[3])})"
    if t == "cast":
        return f"(({e[1]}){unparse(e[2])})"
    raise ValueError(t)


def is_int_literal(text: str) -> bool:
    return re.fullmatch(r"\d+[uUlL]*", text) is not None


# ---------------------------------------------------------------------------
# constant integer evaluation (subscripts, macro values)
def const_int(e, macros: dict[str, int]):
    t = e[0]
    if t == "num":
        if not is_int_literal(e[1]):
            raise ValueError(f"non-integer literal {e[1]} in constant subscript")
        return int(re.sub(r"[uUlL]", "", e[1]))
    if t == "var":
        if e[1] in macros:
            return macros[e[1]]
        raise KeyError(e[1])
    if t == "neg":
        return -const_int(e[1], macros)
    if t == "pos":
        return const_int(e[1], macros)
    if t == "not":
        return int(not const_int(e[1], macros))
    if t == "bin":
        a = const_int(e[2], macros)
        b = const_int(e[3], macros)
        op = e[1]
        if op == "+":
            return a + b
        if op == "-":
            return a - b
        if op == "*":
            return a * b
        if op == "/":
            q = abs(a) // abs(b)
            return q if (a >= 0) == (b >= 0) else -q
        if op == "%":
            return int(math.fmod(a, b))
        if op == "||":
            return int(bool(a) or bool(b))
        if op == "&&":
            return int(bool(a) and bool(b))
        if op == "<":
            return int(a < b)
        if op == ">":
            return int(a > b)
        if op == "<=":
            return int(a <= b)
        if op == ">=":
            return int(a >= b)
        if op == "==":
            return int(a == b)
        if op == "!=":
            return int(a != b)
    raise ValueError(f"not a constant integer expression: {unparse(e)}")


# ---------------------------------------------------------------------------
# IEEE double evaluation with C typing (int/int truncates; pow returns double)
class CInt(int):
    pass


def _isint(x):
    return isinstance(x, CInt)


_CFUNCS = {
    "exp": math.exp,
    "log": math.log,
    "log10": math.log10,
    "sqrt": math.sqrt,
    "fabs": math.fabs,
    "abs": abs,
    "sin": math.sin,
    "cos": math.cos,
    "tan": math.tan,
    "atan": math.atan,
    "tanh": math.tanh,
    "fmax": max,
    "fmin": min,
    "max": max,
    "min": min,
}


def c_pow(a, b):
    a = float(a)
    b = float(b)
    try:
        r = math.pow(a, b)
    except OverflowError:
        # magnitude overflow: sign as C (negative base with odd integer exponent)
        neg = a < 0 and float(b).is_integer() and int(b) % 2 == 1
        r = -math.inf if neg else math.inf
    except (ValueError, ZeroDivisionError):
        if a == 0.0 and b < 0:
            # pole error: C returns +-HUGE_VAL
            neg = math.copysign(1.0, a) < 0 and float(b).is_integer() and int(b) % 2 == 1
            r = -math.inf if neg else math.inf
        else:
            r = math.nan
    return r


def c_call(name, args, funcs):
    if funcs and name in funcs:
        return funcs[name](*args)
    if name == "pow":
        return c_pow(*args)
    if name in _CFUNCS:
        f = _CFUNCS[name]
        try:
            return float(f(*[float(a) for a in args]))
        except OverflowError:
            return math.inf
        except ValueError:
            # domain errors as libm: log(neg)=nan, log(0)=-inf, sqrt(neg)=nan
            if name in ("log", "log10") and float(args[0]) == 0.0:
                return -math.inf
            return math.nan
    raise KeyError(f"unknown function {name}")


def eval_double(e, env: dict, funcs: dict | None = None, arrays: dict | None = None):
    """env: name -> float/CInt ; arrays: name -> sequence or callable(index)"""
    t = e[0]
    if t == "num":
        txt = e[1]
        if is_int_literal(txt):
            return CInt(int(re.sub(r"[uUlL]", "", txt)))
        return float(re.sub(r"[fFlL]$", "", txt))
    if t == "var":
        if e[1] in env:
            return env[e[1]]
        raise KeyError(e[1])
    if t == "idx":
        base = e[1]
        i = eval_double(e[2], env, funcs, arrays)
        if base[0] != "var":
            raise KeyError("complex array base")
        arr = (arrays or {}).get(base[1])
        if arr is None:
            raise KeyError(base[1])
        return arr(int(i)) if callable(arr) else arr[int(i)]
    if t == "call":
        args = [eval_double(a, env, funcs, arrays) for a in e[2]]
        return c_call(e[1], args, funcs)
    if t == "mem":
        key = unparse(e)
        if key in env:
            return env[key]
        raise KeyError(key)
    if t == "neg":
        v = eval_double(e[1], env, funcs, arrays)
        return CInt(-v) if _isint(v) else -v
    if t == "pos":
        return eval_double(e[1], env, funcs, arrays)
    if t == "not":
        return CInt(0 if eval_double(e[1], env, funcs, arrays) else 1)
    if t == "cast":
        v = eval_double(e[2], env, funcs, arrays)
        return CInt(int(v)) if e[1] in ("int", "sunindextype") else float(v)
    if t == "tern":
        c = eval_double(e[1], env, funcs, arrays)
        return eval_double(e[2] if c else e[3], env, funcs, arrays)
    if t == "bin":
        op = e[1]
        if op == "&&":
            a = eval_double(e[2], env, funcs, arrays)
            if not a:
                return CInt(0)
            return CInt(1 if eval_double(e[3], env, funcs, arrays) else 0)
        if op == "||":
            a = eval_double(e[2], env, funcs, arrays)
            if a:
                return CInt(1)
            return CInt(1 if eval_double(e[3], env, funcs, arrays) else 0)
        a = eval_double(e[2], env, funcs, arrays)
        b = eval_double(e[3], env, funcs, arrays)
        bothint = _isint(a) and _isint(b)
        if op in ("<", ">", "<=", ">=", "==", "!="):
            r = {"<": a < b, ">": a > b, "<=": a <= b, ">=": a >= b, "==": a == b, "!=": a != b}[op]
            return CInt(1 if r else 0)
        if bothint:
            if op == "+":
                return CInt(a + b)
            if op == "-":
                return CInt(a - b)
            if op == "*":
                return CInt(a * b)
            if op == "/":
                if b == 0:
                    raise ZeroDivisionError("integer division by zero")
                q = abs(a) // abs(b)
                return CInt(q if (a >= 0) == (b >= 0) else -q)
            if op == "%":
                return CInt(int(math.fmod(a, b)))
        a = float(a)
        b = float(b)
        try:
            if op == "+":
                return a + b
            if op == "-":
                return a - b
            if op == "*":
                return a * b
            if op == "/":
                if b == 0.0:
                    if a == 0.0 or a != a:
                        return math.nan
                    neg = (math.copysign(1.0, a) < 0) != (math.copysign(1.0, b) < 0)
                    return -math.inf if neg else math.inf
                return a / b
        except OverflowError:
            return math.inf
    raise ValueError(f"cannot evaluate {e!r}")
