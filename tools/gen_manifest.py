#!/usr/bin/env python3
"""Generate MANIFEST.json from the table below (kept valid at all times)."""
import json
import sys
from pathlib import Path

VERIF = Path(__file__).resolve().parents[1]

BASELINE = "cd /repo && /venv/bin/python -m pytest -ra -q -p no:cacheprovider --timeout=900 --continue-on-collection-errors"

# id -> (category, technique, text, note, design_ref)
CHECKS = {
    "C01": ("exploration", "bounded-exhaustive enumeration of networks x back-ends; exact polynomial normal form vs reference mass-action model",
            "Every network of the stated alphabets (single reactions with 1-3 reactants incl. repeats/catalysts/ions/surface/grain, all ordered pairs incl. duplicates and E/e- spellings, every subset of the 11 cooling processes, bundled files and all pairwise file merges) is rendered by the real TemplateLoader for all 4 back-ends; each emitted ydot is read into an exact Laurent polynomial and compared with the reference mass-action law, so each explored network is decided for all abundance vectors and rate values. Placeholder reactions given a law by a rate modifier, a 15-species/19-reaction network and long-name networks are part of the space; the temperature equation's symbols are bound by compiling the dense sources (d(Tgas)/dt vs the law with n = sum of species, k_B, gamma, compiled kc; GetMu/GetGamma helpers).",
            "Trusts the E4 reader (bound to g++ whenever it refuses text), the documented alias rule, and my decoders for the bundled files. Network sizes beyond the alphabets are covered only by bundled files.", "DESIGN.md §2 C01"),
    "C02": ("exploration", "bounded-exhaustive enumeration; exact symbolic differentiation of the parsed emitted RHS vs parsed Jacobian entries",
            "For every enumerated network and ODE-modifier shape (0-3 dependencies, repeats) and every back-end, each emitted Jacobian entry is compared with the exact derivative of the emitted RHS polynomial and every omitted entry is shown to have derivative identically zero. The Odeint functor's d(rhs)/dt output is compiled and executed on NaN-poisoned storage (all NEQUATIONS entries exactly 0).",
            "Differentiates the emitted RHS, so independent of C01. npar/gamma/kc held fixed as the property states.", "DESIGN.md §2 C02"),
    "C03": ("exploration", "bounded-exhaustive enumeration; CSR invariants, cross-back-end equality of (row,col,polynomial) sets, constant-evaluated subscript bounds, pattern file",
            "Every enumerated network (incl. the empty network, isolated species, thermal on/off) is rendered for dense/sparse/cusparse/rosenbrock4 with pattern output; CSR well-formedness, equality of stored entries across back-ends, every subscript against the declared sizes, and the pattern file are checked on each.",
            "Subscripts are compile-time constants evaluated through the rendered macros; the cuSPARSE kernels are read (statements, per-system windows) and, in the conformance slice, executed on the host (launcher runs every thread of a 1 x 2 grid over a batch of 3 or NSPECIES+1 systems, ASan/UBSan) and compared per system with the dense back-end; sparse and Odeint are compiled and compared with dense the same way (mu/gamma at their -1 defaults included).", "DESIGN.md §2 C03"),
    "C04": ("exploration", "bounded-exhaustive enumeration of balanced networks; polynomial identity of weighted sums",
            "All balanced reactions (<=3 reactants, <=3 products) over a by-construction species table and all pairs from a pool (electron spellings, gas/ice, ortho/para, isotopologues, dust grains in three charge states, molecules with 11-24 atoms of one element): element- and charge-weighted sums of the emitted ydot polynomials are identically zero; GetElementAbund text equals the count-weighted abundance sum.",
            "Compositions come from the table the names were built from, never from naunet's parser.", "DESIGN.md §2 C04"),
    "C05": ("exploration", "bounded-exhaustive enumeration of (format,type,alpha,beta,gamma); rendered EvalRates compiled with g++ and evaluated on a physical grid vs published laws",
            "Every (format, type/formula/code) of the gas-phase tables is reached through its own line format (own encoder -> naunet parser) and through the API, crossed with (alpha,beta,gamma) in A^3 (signed, zero, integer-valued, extreme). The rendered naunet_rates.cpp is compiled by g++ against the API shim and EvalRates is evaluated on a 36-point grid; each value must equal the published law (rel 1e-12 / same inf-nan class). Every emitted statement must be a C expression (E4, confirmed by g++).",
            "Reference laws are my transcription (mc/ref/ratelaws.py); helper (shielding) values are taken from the compiled helpers. Coefficients/physical parameters range over finite grids, not R.", "DESIGN.md §2 C05"),
    "C06": ("exploration", "bounded-exhaustive enumeration of window shapes x format spellings; compiled EvalRates evaluated at exact boundary doubles",
            "All window shapes (none, 0/0, lower/upper only, both, empty, inverted, adjacent pieces, inexact/tiny/huge bounds) in every spelling of the 6 formats and the API; compiled EvalRates is evaluated at each bound, its neighbouring doubles, mid-points and extremes: k equals the law inside the window and exactly 0.0 outside; adjacent pieces have exactly one active member at every temperature.",
            "Window predicate as stated in the property; KROME operator spellings are read as plain bounds.", "DESIGN.md §2 C06"),
    "C07": ("exploration", "bounded-exhaustive enumeration of encoded lines and file arrangements per format; field-by-field comparison with the abstract reaction that was encoded",
            "For each of the six formats every (reactant count, product count) layout x name classes (incl. column-filling names) x every type code, numbers^3 x index x windows are encoded by my own encoder and parsed by naunet; reactants/products (multisets), alpha/beta/gamma, window, index, type must equal the abstract reaction; markers never become species (reactant side by type code, product side for every marker token at every position); every arrangement of <=4 items (data, blank, whitespace, KROME comment/directive lines) gives one reaction per data line in order. KROME column layouts are data too: 8 @format directives (column orders, 1-3 R, 1-5 P, with/without idx and window columns, key case) x every (reactant, product) count x limit spellings, one directive per file and switching inside one file.",
            "Encoders follow the published column layouts (mc/ref/formats.py). UMIST NE>1 lines are judged in a separate sub-check (open known finding).", "DESIGN.md §2 C07"),
    "C08": ("exploration", "bounded-exhaustive enumeration of names printed from compositions under 4 configurations of the global symbol tables",
            "All singles, all ordered pairs (every adjacent symbol pair) and a family of triples of the configured chemical symbols x counts x ortho/para labels x surface prefixes/groups x charges are printed to names; Species(name) must give back exactly the composition, charge, phase, gas-phase counterpart, mass number, is_atom and (under replacement) the rewritten name; grain symbols with groups, electron spellings, pseudo-element affixes foreign-character insertions and leading counts (must raise) and symbols added through add_known_elements are enumerated as well. One fresh process per configuration slice.",
            "Only names whose intended tokenisation is the unique (or unique fewest-token) reading are judged; mass numbers from my own isotope table.", "DESIGN.md §2 C08"),
    "C09": ("exploration", "bounded-exhaustive enumeration of species sets over naming conventions; cross-artefact comparison",
            "All subsets (size <=4) of a pool covering the naming conventions (charges, ortho/para, surface under two prefixes, grains with groups, excited and cyclic species, both electron spellings), entered through reactions and through required_species, x 4 back-ends: macros are a bijection onto 0..NSPECIES-1, identifiers legal and distinct, two spellings give one slot, and naunet_macros.h, constant_indexes.py, constants.py, the NetworkConfiguration summary, the render command's summary and the Enzo patch (A_ table, ENZO_NSPECIES, wrapper load/store, field-lookup declarations/definitions/calls, per-species lists of every patched file) agree in count and order.",
            "Species identity of the reference is stated in the evidence assumptions; render-command and Enzo artefacts are checked on an index-determined slice.", "DESIGN.md §2 C09"),
    "C10": ("exploration", "exhaustive enumeration of the configuration space; g++ -fsyntax-only of every rendered translation unit against an API shim",
            "format-set x grain model x back-end x shielding tables x thermal: each configuration renders a probe network holding one reaction of every type the combination can produce (combinations refused in Python are recorded) and every src/*.cpp must pass g++ without diagnostics about undeclared or redefined names; every data line of every probe file is also rendered alone (ice/grain lines under each dust model), so that a symbol must be declared by the reaction that uses it. naunet.cpp is also compiled as the python module (-DPYMODULE, pybind11 stand-in); for the full probes the units src/CMakeLists.txt lists are linked (undefined / doubly defined symbols are violations); ODE modifiers written in dust-model deriveds and networks without atomic H are further configurations.",
            "SUNDIALS/Boost are a hand-written shim; a diagnostic about a shim name is a harness error. Only name diagnostics are judged. The cuSPARSE back-end is outside this property's quantification (DESIGN §7).", "DESIGN.md §2 C10"),
    "C11": ("exploration", "exhaustive enumeration of process x dust model x species x entry path; compiled EvalRates vs independent transcription of the model formulae",
            "Every (process, dust model) pair is enumerated for species that differ in mass number, binding energy and yield, through Leeds lines, UCLCHEM lines and the native API, with and without user binding-energy/yield tables and grain species; the rendered EvalRates is compiled by g++ and must equal the transcription of the documented model on (Tgas,Tdust) x (mantle present / absent); the model x process matrix must refuse what a model does not implement; eb_<alias> constants must carry the reacting species' own binding energy; for the threshold-gated processes the thresholds are also placed exactly on, one ulp below and one ulp above each binding energy.",
            "Numeric prefactors and coverage factors are those of the implementations the classes cite (Walsh+2015, UCLCHEM v1.3) - listed in the evidence assumptions.", "DESIGN.md §2 C11"),
    "C12": ("exploration", "bounded-exhaustive enumeration of expression trees of the translator's grammar; Fortran-semantics evaluator vs C-semantics evaluation of the emitted text",
            "All binary expression trees with <=3 leaves over a 12-leaf alphabet (thorough: + all 4-leaf trees over 4 leaves), printed with minimal and full parentheses, function wrappers, abundance references, near-miss inputs and all 3544 bundled KROME rate expressions are translated by the real KROMEReaction.rateexpr; the emitted C (read by E4 with C typing) must have the value my Fortran evaluator assigns to the source on 5 valuations, and every n(idx_X) must resolve to X's macro (all one-letter element indices x charge suffixes x three contexts are enumerated separately). Powers with special-cased exponents in every operator context, quotients of integer literals and the shortcut variables (Te, invT, T32 ...) are families of their own.",
            "Own Fortran evaluator is the reference (precedence, right-assoc **, integer typing). Disagreements are classified by which wrong reading reproduces the C value.", "DESIGN.md §2 C12"),
    "C13": ("exploration", "bounded-exhaustive enumeration of networks x index patterns x modifier key subsets; differential (with/without modifier, entry path vs entry path)",
            "Networks of 2-4 reactions under five index patterns (distinct, shared, unindexed -> re-indexed, mixed, zero-based), every subset of (present indices + one absent index) as rate-modifier keys, four ODE-modifier shapes: the rendering with modifiers may differ from the rendering without exactly at the targeted rate statements and by exactly factor x product of abundances on the named species; a slice of cases goes through Network.export -> render and init -> render in fresh processes and must give identical rate text, RHS and Jacobian polynomials; every rate statement must write the slot of its own reaction (one statement per reaction, position order); the same modifiers given to the constructor, assigned through the setters and entered in place into the accessors' tables must render identically.",
            "Effective index of an unindexed network = position (as TemplateLoader.render re-indexes). Values with ',' are outside what init's option grammar can express.", "DESIGN.md §2 C13"),
    "C14": ("model_checking", "explicit-state breadth-first search over operation histories on real Network objects, states de-duplicated by a canonical key, reference model compared on every transition",
            "BFS over all histories of a 24-operation menu (add x7, add from file, remove by index/list/instance/instances, three allowed lists, two required lists, de-duplicate, append depletion/desorption, reindex) to depth 3 (quick) / 5 (thorough) and of a reduced 10-operation menu to depth 7; every transition calls the real method on a fresh Network replayed from the history and compares reaction list, species, sources/sinks, where_species, allowed-filter and index macros (vs a one-shot construction) with a boring reference model; every history is also executed with all public observers called after every operation and must end in the same observable state. Plus allowed-setter vs constructor on all add sequences <=3 and the extend command on 3 inputs x 8 flag sets x 5 species options.",
            "Canonical key includes the cached species sets, so merged states have equal futures. Reaction identity classes of the pool are stated in the evidence.", "DESIGN.md §2 C14"),
    "C15": ("exploration", "bounded-exhaustive enumeration of reaction lists x comparison modes; O(n^2) pairwise reference",
            "All lists of length <=5 (quick <=4) over a pool of 11 reactions (two bases, a multiplicity-only pair; permuted reactants/products, windows differing in one or both bounds, other type, unknown type), a second pool (electron spellings, labels, int-typed bounds) and a third (reactions with an empty side) x modes default/brief/minimal/short: reported indices, reported reactions and first members equal the pairwise reference; removing the reported reactions leaves one member per class and a second call reports nothing; searches after an in-place edit of a reaction are enumerated too.",
            "Lists on which the default-mode relation is not transitive (UNKNOWN type bridging two known types) are enumerated but not judged.", "DESIGN.md §2 C15"),
    "C16": ("exploration", "bounded-exhaustive enumeration of species sets; exact rational evaluation of the emitted renormalisation text and exact solve",
            "All species sets {H} + up to 4 of 12 others (ions, isotopologues, multi-element molecules, ice, grains, electrons) x positive abundance vectors x reference ratios: InitRenorm, RenormAbundance and GetElementAbund text is read into exact polynomials, the linear system is solved over Q, and afterwards every element/H-nuclei ratio equals the reference, electrons are untouched and matching ratios give the identity; a literal division by zero, a non-C factor or a subscript outside NELEMENTS/NEQUATIONS is a violation. Each set is built twice (sorted slot order; a linking reaction that moves the last-sorted species - the electron - to slot 0). A slice is compiled: the real SetReferenceAbund (opt 0 with un-normalised references, opt 1) + Renorm (called twice on one object) against the shim's LU must land on the exact solution, and so must the array the python entry point PyWrapRenorm returns (-DPYMODULE build, functional pybind11 stand-in).",
            "Exact arithmetic replaces the LU solve of SUNDIALS/uBLAS (equal up to rounding). Sets without atomic H are outside the generated Renorm (#ifdef IDX_ELEM_H).", "DESIGN.md §2 C16"),
    "C17": ("model_checking", "stateless exhaustive exploration of all interleavings of sequential client programs over the shared process-global tables, one fresh process per schedule; differential oracle against the client rendered alone",
            "Seven clients chosen to write different values into the same global tables (KIDA/default lists, UCLCHEM project through RenderCommand with replacement + binding energies, Leeds with custom lists and prefix G, two KROME files with different directives, API-built unindexed ice network with rate and ODE modifiers, KIDA with an upper-case element list and no replacement; the edit step adds a reaction, a required species and - for two clients - a shielding function) each run a short program of atomic API calls (build; render / render twice / edit, where_species, render / CLI render); every interleaving of every pair (thorough: and triple) within the length bound is executed on the real code in a fresh process and every render must hash to the client's reference hash, which itself must agree across interpreter hash seeds, repeated renders and 'render, edit, render' vs 'edit, render'.",
            "Scheduling points are API-call boundaries (single-threaded library). No state merging, so no canonicalisation argument is needed.", "DESIGN.md §2 C17"),
    "C18": ("exploration", "bounded-exhaustive enumeration of networks of every format; write/read/write cycles compared field by field and byte by byte; export + re-render compared by compiled evaluation",
            "Every line of C07's space (5 typed formats, 200 reactions per file) is read, written in the native format, read back and written again: reactions in order with multisets, window, type, index, source tag and printed-precision coefficients must be preserved and the second cycle must be byte-identical. For every gas-phase (format,type), a KROME rate and every (entry path, dust model, process), a one-reaction project (and projects with a two-term fit) is exported and re-rendered from its own files; both EvalRates are compiled by g++ and must evaluate equal over the whole rate table, or the re-render must raise. A network edited after reading (remove, new coefficients, reindex) goes through the same cycle.",
            "Refusals and non-compiling re-renders are not violations (not silent). Physical values are set identically on both sides (zeta = zeta_cr, zeta_xr = 0).", "DESIGN.md §2 C18"),
    "C19": ("fault_enumeration", "stateless depth-first enumeration of integrator outcome sequences (choice vectors with prefix replay) compiled against the rendered Solve/HandleError with a scripted mock integrator",
            "The rendered naunet.cpp (dense, sparse, a thermal network with NEQUATIONS = NSPECIES + 1, odeint) is compiled with a mock integrator of y'=1, so the final state of every equation measures integrated time. Every sequence of outcomes within the pass alphabets - success, fail(flag, progress fraction) per CVode call at the offered positions of all five recovery levels, failing re-initialisation - is executed; on each: SUCCESS iff exactly dt was integrated and the last answer was a success, unrecoverable flags/failed re-init/level-5 failure give FAIL with the whole initial state (all NEQUATIONS entries) logged, the integrator configured with the object's atol/rtol/mxsteps, a second Solve on the same object behaving like the first, no integrator call after an unrecoverable flag, tout strictly increasing. Odeint: step counts around the budget and exceptions from the system function.",
            "The mock reproduces the CVODE calling convention (tret = time reached, yout advanced), not its numerics. Failure positions are restricted per pass (stated in the evidence); a capped pass is reported as such. The cuSPARSE Solve is compiled for the host against an emulation of the CUDA/cuSPARSE/cuSOLVER names it touches, kernels stubbed.", "DESIGN.md §2 C19"),
    "C20": ("exploration", "pairwise-exhaustive enumeration of init option values around a base configuration; field comparison of the written TOML and byte comparison of CLI vs API renderings in sibling fresh processes",
            "Every init option alone over its value alphabet (lists with/without spaces, key:value and key=value tables, empty values, values containing the separator, prefixes, all legal and illegal solver triples) and all value pairs (quick: of the six interacting options; thorough: of all options) go through `naunet init --render`; the written naunet_config.toml must equal the requested description field by field and the rendered include/src/python trees must be byte-identical to the equivalent network rendered through the public API in a fresh process; bundled examples go through `naunet example`; `--loading` modules registering reactions / cooling names, user ice tables (with element replacement) and `render --patch enzo` vs the API patch are further families. Export clause: API networks over (element lists, allowed/required species, symbols, dust model, ice species, binding/yield overrides, cooling, shielding, modifiers, solver) singly and pairwise -> Network.export -> TOML fields vs the network -> `naunet render --force` inside the exported project -> same tree (RHS/Jacobian files compared as exact polynomials per slot, everything else byte for byte).",
            "Reference reading of the option grammar is stated in the evidence. The ism example (network file not shipped) is not run.", "DESIGN.md §2 C20"),
}

NOT_YET = {
}


def main():
    checks = []
    for pid, (cat, tech, text, note, ref) in sorted(CHECKS.items()):
        checks.append(
            {
                "property_id": pid,
                "quick_cmd": f"./check {pid} --tier quick",
                "thorough_cmd": f"./check {pid} --tier thorough",
                "evidence_file": f"/verif/evidence/{pid}.json",
                "replay_cmd_template": f"./check {pid} --replay {{path}}",
                "engine": "mc",
                "level_claimed": {"category": cat, "text": text, "design_ref": ref},
                "level_note": note,
                "technique": tech,
            }
        )
    props = [json.loads(l)["id"] for l in (VERIF / "properties.jsonl").read_text().splitlines() if l.strip()]
    na = []
    for pid in props:
        if pid not in CHECKS:
            na.append({"property_id": pid, "reason": NOT_YET.get(pid, "check not built yet in this tree (work in progress; the design in DESIGN.md §2 applies) - not claimed until it runs clean")})
    man = {
        "version": 1,
        "setup_cmd": "bash /verif/tools/setup.sh",
        "hooks": {
            "guard": "NAUNET_VERIF",
            "enable": "no source hooks are needed: naunet is installed editable from /repo, every check imports and renders from the current working tree; NAUNET_VERIF=1 is exported by ./check but nothing in /repo reads it",
            "baseline_off_cmd": BASELINE,
            "source_commits": [],
            "add_only": True,
        },
        "engines": [
            {"name": "mc", "path": "/verif/mc", "serves_properties": sorted(CHECKS), "kind_free_text": "hand-written bounded-exhaustive explorers over the real Python code generator (E1 enumerator, E2 explicit-state BFS over real objects, E3 choice-sequence DFS compiled against the generated Solve), an exact reader for the emitted C subset (E4) and a g++ API shim (E5)"},
        ],
        "checks": checks,
        "not_applicable": na,
        "notes": "Known genuine defects are listed in /verif/known_findings.json (open -> KNOWN-FINDING line, fixed -> suppresses nothing). Seeded property-breaking changes live in /verif/seeded/.",
    }
    (VERIF / "MANIFEST.json").write_text(json.dumps(man, indent=1) + "\n")
    try:
        import jsonschema

        jsonschema.validate(man, json.loads(Path("/root/.vp/MANIFEST.schema.json").read_text()))
        print("MANIFEST.json valid;", len(checks), "checks,", len(na), "not_applicable")
    except ImportError:
        print("MANIFEST.json written (jsonschema unavailable)")


if __name__ == "__main__":
    main()
