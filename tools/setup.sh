#!/bin/bash
# MANIFEST.setup_cmd: build the framework from files on disk only (offline).
set -e
cd "$(dirname "$0")/.."
mkdir -p vendor evidence replays
if ! PYTHONPATH=vendor /venv/bin/python -c "import jsonschema" 2>/dev/null; then
  /venv/bin/pip install --quiet --no-index --find-links /opt/veriftools/wheels --target vendor jsonschema >/dev/null 2>&1 || \
    echo "setup: jsonschema could not be vendored; evidence is then validated structurally only" >&2
fi
/venv/bin/python -m compileall -q mc >/dev/null
g++ --version >/dev/null
echo "setup ok"
