#!/usr/bin/env python3
"""tools/keep_mutant.py <worktree-with-MUTANT> <seeded-name> <check id> [more check ids]
Confirms a seeded change in a fresh scratch worktree (tests, demo with/without) and records which
checks report it; stores everything under /verif/seeded/<name>/."""
import json, re, shutil, subprocess, sys
from pathlib import Path

src, name, checks = Path(sys.argv[1]), sys.argv[2], sys.argv[3:]
out = subprocess.run(["/verif/tools/try_mutant.sh", str(src), *checks], capture_output=True, text=True).stdout
print(out)
dest = Path("/verif/seeded") / name
dest.mkdir(parents=True, exist_ok=True)
m = src / "MUTANT"
for item in m.iterdir():
    if item.name in ("__pycache__", "meta.json"):
        continue
    if item.is_dir():
        shutil.copytree(item, dest / item.name, dirs_exist_ok=True, ignore=shutil.ignore_patterns("__pycache__"))
    else:
        shutil.copy(item, dest / item.name)
meta = json.loads((m / "meta.json").read_text()) if (m / "meta.json").exists() else {}
res = {}
for ln in out.splitlines():
    mm = re.match(r"== (C\d\d) quick: exit=(\d+) (\d+) violation\(s\): (.*)", ln)
    if mm:
        res[mm.group(1)] = {"exit": int(mm.group(2)), "violations": int(mm.group(3)), "signatures": mm.group(4).strip()}
conf = {
    "demo_without_change_exit": int(re.search(r"demo without change: (\d+)", out).group(1)),
    "demo_with_change_exit": int(re.search(r"demo with change:\s+(\d+)", out).group(1)),
    "tests_with_change": re.search(r"tests with change:\s+(.*)", out).group(1),
}
meta["confirmed_by_me"] = conf
meta["what_i_ran"] = f"tools/try_mutant.sh (fresh scratch worktree of /repo HEAD, patch applied there): pytest, demo with/without, ./check <id> --tier quick with NAUNET_REPO pointing at the worktree: {', '.join(checks)}"
meta["checks_quick"] = res
(dest / "meta.json").write_text(json.dumps(meta, indent=1) + "\n")
ok = conf["demo_without_change_exit"] == 0 and conf["demo_with_change_exit"] != 0 and "82 passed" in conf["tests_with_change"] and "3 failed" in conf["tests_with_change"]
print("CONFIRMED" if ok else "NOT-CONFIRMED", {k: v["violations"] for k, v in res.items()})
