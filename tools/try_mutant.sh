#!/bin/bash
# tools/try_mutant.sh <seeded-dir-or-worktree-with-MUTANT> <check id...>
# Tries a seeded change in a scratch worktree (never in /repo): baseline tests, demo with/without, then the checks.
set -u
SRC="$1"; shift
PATCH="$SRC/patch.diff"; [ -f "$PATCH" ] || PATCH="$SRC/MUTANT/patch.diff"
DEMO="$SRC/demo.py"; [ -f "$DEMO" ] || DEMO="$SRC/MUTANT/demo.py"
WT=$(mktemp -d /tmp/trymut.XXXXXX); rmdir "$WT"
git -C /repo worktree add -q --detach "$WT" HEAD || exit 2
cleanup() { git -C /repo worktree remove --force "$WT" 2>/dev/null; rm -rf "$WT"; }
trap cleanup EXIT
cd "$WT"
# the demonstration runs from inside the scratch worktree (some demos locate the tree through __file__)
mkdir -p "$WT/MUTANT"; cp -r "$(dirname "$DEMO")"/. "$WT/MUTANT/"; DEMO="$WT/MUTANT/demo.py"
echo "== demo without change: $(TQDM_DISABLE=1 PYTHONPATH=$WT timeout 600 /venv/bin/python $DEMO >/dev/null 2>&1; echo $?)"
git apply "$PATCH" || { echo "patch does not apply"; exit 2; }
echo "== demo with change:    $(TQDM_DISABLE=1 PYTHONPATH=$WT timeout 600 /venv/bin/python $DEMO >/dev/null 2>&1; echo $?)"
echo "== tests with change:   $(timeout 1200 /venv/bin/python -m pytest -q -p no:cacheprovider 2>&1 | tail -1)"
cd /verif
for c in "$@"; do
  out=$(NAUNET_REPO="$WT" ./check "$c" --tier quick 2>&1)
  echo "== $c quick: exit=$? $(echo "$out" | grep -c '^VIOLATION') violation(s): $(echo "$out" | grep -m2 'signature=' | tr '\n' ' ' | cut -c1-220)"
done
