#!/bin/bash
# tools/run_seeded.sh [name ...]  - apply each seeded change to /repo itself, run the quick check of its
# property (expected: exit 1 with a VIOLATION line), undo the change straight afterwards.
cd /verif
names=("$@"); [ ${#names[@]} -eq 0 ] && names=($(ls seeded))
rc=0
for n in "${names[@]}"; do
  id=${n%%-*}
  if ! git -C /repo diff --quiet; then echo "/repo has local modifications - refusing"; exit 2; fi
  git -C /repo apply "/verif/seeded/$n/patch.diff" || { echo "$n: patch does not apply"; rc=1; continue; }
  out=$(./check "$id" --tier quick 2>&1); ex=$?
  git -C /repo checkout -- .
  nv=$(echo "$out" | grep -c '^VIOLATION')
  if [ $ex -eq 1 ] && [ $nv -gt 0 ]; then echo "$n: DETECTED by $id ($nv violation lines)"; else echo "$n: NOT DETECTED by $id (exit $ex)"; rc=1; fi
done
git -C /repo status --short | grep -v "^??" | head -3
exit $rc
