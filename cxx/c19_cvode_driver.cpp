// C19 (CVODE back-ends): choice-sequence explorer (E3) compiled together with the *rendered*
// naunet.cpp.  The mock integrator integrates y' = 1 exactly, so y measures integrated time.
#include <cvode/cvode.h>
#include <math.h>
#include <stdio.h>
#include <stdlib.h>
#include <string.h>
#include <string>
#include <vector>
#include "naunet.h"
#include "naunet_data.h"

char *verif_log_buf = NULL;
size_t verif_log_len = 0;

#ifdef USE_CUDA
// the cuSPARSE variant's Fex/Jac/InitJac live in .cu files with kernel launches, which cannot be compiled
// here; Solve never calls them through the mock integrator, so link-time stubs are enough
int Fex(realtype, N_Vector, N_Vector, void *) { return 0; }
int Jac(realtype, N_Vector, N_Vector, SUNMatrix, void *, N_Vector, N_Vector, N_Vector) { return 0; }
int InitJac(SUNMatrix) { return 0; }
#endif

// the cuSPARSE variant integrates a batch of systems in one call: three of them here
#ifdef USE_CUDA
#define NSYS 3
#else
#define NSYS 1
#endif
#define NTOT (NSYS * NEQUATIONS)

// ---------------------------------------------------------------- choice machinery
static std::vector<int> g_prefix, g_taken, g_arity;
static size_t g_pos;
static bool g_frozen = false;   // second Solve of an execution: the integrator always succeeds, nothing is recorded
static int choose(int n) {
    if (g_frozen) return 0;
    int c = g_pos < g_prefix.size() ? g_prefix[g_pos] : 0;
    if (c >= n) { fprintf(stderr, "HARNESS: choice %d out of range %d at %zu\n", c, n, g_pos); exit(3); }
    g_taken.push_back(c); g_arity.push_back(n); g_pos++;
    return c;
}

// ---------------------------------------------------------------- alphabet
struct Alphabet {
    std::vector<int> flags;       // failing flags offered at a decision point
    std::vector<double> fracs;    // progress fractions before a failure
    std::vector<int> okflags;     // success return values (0, positive warnings)
    int mode;                     // 1: positions {1,2,mid,last-1,last} on every level; 2: all positions of level `lvl`, position 1 elsewhere; 3: position 1 only
    int lvl;
    bool reinit_can_fail;
};
static Alphabet A;

// ---------------------------------------------------------------- mock CVODE
struct Mock {
    double t_cur; int level; int step; int ncalls; int calls_after_fatal; bool fatal_seen;
    double last_tout; bool tout_monotone; int last_ret; bool last_was_cvode; int reinits; bool reinit_failed;
    double integrated;   // what the mock itself integrated in total (independent bookkeeping)
};
static Mock M;

static bool position_offered(int level, int step) {
    int n = level == 0 ? 1 : 10 * level;
    if (level == 0) return true;
    if (A.mode == 1) return step == 1 || step == 2 || step == (n + 1) / 2 || step == n - 1 || step == n;
    if (A.mode == 2) return level == A.lvl ? true : step == 1;
    return step == 1;
}

extern "C++" {
void *CVodeCreate(int, SUNContext) { return malloc(8); }
void CVodeFree(void **m) { if (m && *m) { free(*m); *m = NULL; } }
int CVodeInit(void *, CVRhsFn, realtype t0, N_Vector) { M.t_cur = t0; M.level = 0; M.step = 0; return 0; }
int CVodeReInit(void *, realtype t0, N_Vector) {
    M.reinits++; M.level++; M.step = 0; M.last_tout = -1.0; M.last_was_cvode = false;
    if (A.reinit_can_fail && choose(2) == 1) { M.reinit_failed = true; M.last_ret = -22; return -22; }
    M.t_cur = t0; M.last_ret = 0;
    return 0;
}
static int g_bad_config = 0;   /* the integrator must be configured with exactly what Init was given */
static const double VERIF_ATOL = 3e-19, VERIF_RTOL = 7e-6; static const long VERIF_MXSTEPS = 321;
int CVodeSStolerances(void *, realtype reltol, realtype abstol) { if (reltol != VERIF_RTOL || abstol != VERIF_ATOL) g_bad_config |= 1; return 0; }
int CVodeSetErrFile(void *, FILE *) { return 0; }
int CVodeSetMaxNumSteps(void *, long int n) { if (n != VERIF_MXSTEPS) g_bad_config |= 2; return 0; }
int CVodeSetUserData(void *, void *) { return 0; }
int CVodeSetLinearSolver(void *, SUNLinearSolver, SUNMatrix) { return 0; }
int CVodeSetJacFn(void *, CVLsJacFn) { return 0; }
int CVodeSetJacTimes(void *, void *, CVLsJacTimesVecFn) { return 0; }
int CVodeGetCurrentTime(void *, realtype *t) { *t = M.t_cur; return 0; }
int CVodeGetNumSteps(void *, long int *n) { *n = 0; return 0; }
int CVodeGetNumRhsEvals(void *, long int *n) { *n = 0; return 0; }
int CVodeGetNumLinSolvSetups(void *, long int *n) { *n = 0; return 0; }
int CVodeGetNumErrTestFails(void *, long int *n) { *n = 0; return 0; }
int CVodeGetNumNonlinSolvIters(void *, long int *n) { *n = 0; return 0; }
int CVodeGetNumNonlinSolvConvFails(void *, long int *n) { *n = 0; return 0; }
int CVodeGetNumJacEvals(void *, long int *n) { *n = 0; return 0; }
int CVodeGetNumGEvals(void *, long int *n) { *n = 0; return 0; }

int CVode(void *, realtype tout, N_Vector y, realtype *tret, int) {
    M.ncalls++; M.step++; M.last_was_cvode = true;
    if (M.fatal_seen) M.calls_after_fatal++;
    if (M.last_tout >= 0 && !(tout > M.last_tout)) M.tout_monotone = false;
    M.last_tout = tout;
    realtype *yd = N_VGetArrayPointer(y);
    int nok = (int)A.okflags.size();
    int nfail = (int)(A.flags.size() * A.fracs.size());
    int c = position_offered(M.level, M.step) ? choose(nok + nfail) : 0;
    if (c < nok) {
        double d = tout - M.t_cur;
        for (sunindextype i = 0; i < N_VGetLength(y); i++) yd[i] += d;
        M.integrated += d; M.t_cur = tout; *tret = tout; M.last_ret = A.okflags[c];
        return A.okflags[c];
    }
    c -= nok;
    int f = A.flags[c / A.fracs.size()];
    double p = A.fracs[c % A.fracs.size()];
    double d = p * (tout - M.t_cur);
    for (sunindextype i = 0; i < N_VGetLength(y); i++) yd[i] += d;
    M.integrated += d; M.t_cur += d; *tret = M.t_cur; M.last_ret = f;
    if (f == -6) M.integrated = 0.0;            // the ladder restarts from the initial state
    if (!((f < 0 && f > -5) || f == -6)) M.fatal_seen = true;
    return f;
}
}

// ---------------------------------------------------------------- one execution + oracle
struct Stats { unsigned long long runs, succ, fail, maxfail_depth; unsigned long long by_level[8]; };
static Stats S;
static std::string g_violation;
static std::vector<int> g_violation_choices;

static bool run_once(double dt, const double y0) {
    g_taken.clear(); g_arity.clear(); g_pos = 0;
    memset(&M, 0, sizeof(M)); M.tout_monotone = true; M.last_tout = -1.0;
    Naunet naunet;
    NaunetData data[NSYS];
    for (int g = 0; g < NSYS; g++) { data[g].nH = 1.0; data[g].Tgas = 10.0; }
    double y[NTOT];
    for (int i = 0; i < NTOT; i++) y[i] = y0;
    /* a long-lived object that was finalised and is initialised again (host codes do this between output intervals):
       everything Solve needs, the failure record included, belongs to the second initialisation */
    naunet.Init(NSYS, 1e-20, 1e-5, 500);
    naunet.Finalize();
    free(verif_log_buf); verif_log_buf = NULL; verif_log_len = 0;
    g_bad_config = 0;
    naunet.Init(NSYS, VERIF_ATOL, VERIF_RTOL, VERIF_MXSTEPS);
#ifdef VERIF_PYENTRY
    /* the python entry point: a failure is an exception, a success hands back the advanced state */
    int ret;
    try {
        std::vector<ssize_t> shp(1, (ssize_t)NTOT);
        pybind11::array_t<realtype> in(shp, y);
        pybind11::array_t<realtype> out = naunet.PyWrapSolve(in, dt, data);
        pybind11::buffer_info bi = out.request();
        if (bi.size != (ssize_t)NTOT) { fprintf(stderr, "PyWrapSolve returned %ld entries\n", (long)bi.size); exit(4); }
        memcpy(y, bi.ptr, sizeof(double) * NTOT);
        ret = NAUNET_SUCCESS;
    } catch (const std::runtime_error &e) { if (getenv("VERIF_DUMPLOG")) fprintf(stderr, "exception: %s\n", e.what()); ret = NAUNET_FAIL; }
#else
    int ret = naunet.Solve(y, dt, data);
#endif
    // a second interval on the same object, whatever the first one did: with a well-behaved integrator it must
    // simply integrate dt again from the state it is given
    Mock keep = M;
    g_frozen = true;
    double y2[NTOT];
    const double y0b = 0.75 * dt;
    for (int i = 0; i < NTOT; i++) y2[i] = y0b;
    memset(&M, 0, sizeof(M)); M.tout_monotone = true; M.last_tout = -1.0;
    int ret2 = naunet.Solve(y2, dt, data);
    bool second_ok = ret2 == NAUNET_SUCCESS;
    for (int i = 0; i < NTOT; i++) if (!(fabs((y2[i] - y0b) - dt) <= 1e-9 * dt)) second_ok = false;
    g_frozen = false;
    M = keep;
    naunet.Finalize();   // closes the memstream: verif_log_buf/len are final now
    std::string log = verif_log_buf ? std::string(verif_log_buf, verif_log_len) : std::string();
    free(verif_log_buf); verif_log_buf = NULL; verif_log_len = 0;
    if (getenv("VERIF_DUMPLOG")) fprintf(stderr, "---- error record (ret=%d)\n%s----\n", ret, log.c_str());
    S.runs++;
    if (M.level < 8) S.by_level[M.level]++;
    const char *why = NULL;
    char buf[640];
    bool last_ok = M.last_ret >= 0;
    if (ret == NAUNET_SUCCESS) {
        S.succ++;
        double got = y[0] - y0;
        int worst = 0;   /* every equation (species and, if present, the temperature) must have advanced by dt */
        for (int i = 0; i < NTOT; i++) if (fabs((y[i] - y0) - dt) > fabs((y[worst] - y0) - dt)) worst = i;
        got = y[worst] - y0;
        if (!(fabs(got - dt) <= 1e-9 * dt)) { snprintf(buf, sizeof buf, "returned SUCCESS but integrated %.17g of the requested %.17g (ratio %.12g) in equation %d of %d (%d system(s))%s", got, dt, got / dt, worst, (int)NTOT, (int)NSYS, last_ok && !M.fatal_seen && M.reinits == 0 ? " although the integrator never failed" : ""); why = buf; }
        else if (!last_ok) { snprintf(buf, sizeof buf, "returned SUCCESS although the last integrator answer was the failure %d", M.last_ret); why = buf; }
    } else if (ret == NAUNET_FAIL) {
        S.fail++;
        if (last_ok && !M.reinit_failed) { snprintf(buf, sizeof buf, "returned FAIL although the last integrator answer was a success (%d)", M.last_ret); why = buf; }
        char line[64];
        for (int i = 0; i < NEQUATIONS && !why; i++) {   /* the whole initial state: every equation, also the temperature */
            snprintf(line, sizeof line, "    y[%d] = %13.7e;", i, y0);
            if (log.find(line) == std::string::npos) { snprintf(buf, sizeof buf, "returned FAIL but the error record lacks the initial state line '%s'", line); why = buf; }
        }
    } else { snprintf(buf, sizeof buf, "Solve returned %d (neither SUCCESS nor FAIL)", ret); why = buf; }
    if (!why && !second_ok) { snprintf(buf, sizeof buf, "a second Solve on the same object (integrator always succeeding) returned %d and integrated %.17g of the requested %.17g", ret2, y2[0] - y0b, dt); why = buf; }
    if (!why && g_bad_config) { snprintf(buf, sizeof buf, "the integrator was configured with other %s than Init was given", g_bad_config & 1 ? "tolerances" : "step limit"); why = buf; }
    if (!why && M.calls_after_fatal > 0) { snprintf(buf, sizeof buf, "CVode called %d more time(s) after an unrecoverable flag", M.calls_after_fatal); why = buf; }
    if (!why && !M.tout_monotone) { snprintf(buf, sizeof buf, "tout not strictly increasing inside a level"); why = buf; }
    if (!why && M.fatal_seen && ret != NAUNET_FAIL) { snprintf(buf, sizeof buf, "an unrecoverable flag was returned by the integrator but Solve returned %d", ret); why = buf; }
    if (why) {
        if (g_violation.empty()) { g_violation = why; g_violation_choices = g_taken; }
        return false;
    }
    return true;
}

static void parse_list_i(const char *s, std::vector<int> &v) { v.clear(); char *e; while (*s) { v.push_back((int)strtol(s, &e, 10)); s = *e ? e + 1 : e; } }
static void parse_list_d(const char *s, std::vector<double> &v) { v.clear(); char *e; while (*s) { v.push_back(strtod(s, &e)); s = *e ? e + 1 : e; } }

int main(int argc, char **argv) {
    // usage: drv <mode> <lvl> <flags> <fracs> <okflags> <reinitfail 0/1> <dt> <root prefix or -> <maxruns> [replay]
    if (argc < 10) { fprintf(stderr, "usage\n"); return 2; }
    A.mode = atoi(argv[1]); A.lvl = atoi(argv[2]);
    parse_list_i(argv[3], A.flags); parse_list_d(argv[4], A.fracs); parse_list_i(argv[5], A.okflags);
    A.reinit_can_fail = atoi(argv[6]) != 0;
    double dt = strtod(argv[7], NULL);
    std::vector<int> root; if (strcmp(argv[8], "-") != 0) parse_list_i(argv[8], root);
    unsigned long long maxruns = strtoull(argv[9], NULL, 10);
    bool replay = argc > 10;
    const double y0 = 0.25 * dt;   /* same magnitude as the interval, so that y - y0 measures the integrated time exactly for tiny and huge dt alike */
    memset(&S, 0, sizeof(S));
    g_prefix = root;
    unsigned long long nviol = 0; bool capped = false;
    if (replay) {
        bool a = run_once(dt, y0); std::vector<int> t1 = g_taken; std::string v1 = g_violation;
        g_violation.clear();
        bool b = run_once(dt, y0);
        if (a != b || t1 != g_taken) { printf("{\"nondeterministic\": true}\n"); return 3; }
        printf("{\"replay_ok\": %s, \"violation\": \"%s\"}\n", a ? "true" : "false", v1.c_str());
        return 0;
    }
    while (true) {
        if (!run_once(dt, y0)) nviol++;
        if (g_taken.size() < root.size()) {
            // the execution ended before the root prefix was consumed: this leaf belongs to the
            // sibling root whose remaining entries are all 0; count it only there
            bool mine = true;
            for (size_t k = g_taken.size(); k < root.size(); k++) if (root[k] != 0) mine = false;
            if (!mine) { S.runs = 0; S.succ = 0; S.fail = 0; nviol = 0; g_violation.clear(); g_violation_choices.clear(); memset(S.by_level, 0, sizeof S.by_level); }
            break;
        }
        // odometer step: deepest decision past the root that has an untried alternative
        long i = (long)g_taken.size() - 1;
        while (i >= (long)root.size() && g_taken[i] + 1 >= g_arity[i]) i--;
        if (i < (long)root.size()) break;
        g_prefix.assign(g_taken.begin(), g_taken.begin() + i);
        g_prefix.push_back(g_taken[i] + 1);
        if (S.runs >= maxruns) { capped = true; break; }
    }
    printf("{\"runs\": %llu, \"success\": %llu, \"fail\": %llu, \"violations\": %llu, \"capped\": %s, \"deepest_level\": [", S.runs, S.succ, S.fail, nviol, capped ? "true" : "false");
    for (int i = 0; i < 8; i++) printf("%llu%s", S.by_level[i], i < 7 ? "," : "");
    printf("], \"first_violation\": \"%s\", \"choices\": [", g_violation.c_str());
    for (size_t i = 0; i < g_violation_choices.size(); i++) printf("%d%s", g_violation_choices[i], i + 1 < g_violation_choices.size() ? "," : "");
    printf("]}\n");
    return 0;
}
