/* link-time counterpart of verif_io.h (g++ -Wl,--wrap=fopen): a translation unit that includes <cstdio> after the
   forced include loses the fopen macro (libstdc++ #undefs it), so the one fopen of the generated error record is also
   caught at link time.  Everything else goes to the real fopen. */
#include <stdio.h>
#include <string.h>
extern "C" {
extern char *verif_log_buf;
extern size_t verif_log_len;
FILE *__real_fopen(const char *, const char *);
FILE *__wrap_fopen(const char *path, const char *mode) {
    if (strcmp(path, "naunet_error_record.txt") == 0) return open_memstream(&verif_log_buf, &verif_log_len);
    return __real_fopen(path, mode);
}
}
