/* forced include for the C19 harness: the generated Solve appends to ./naunet_error_record.txt;
   route that one fopen to an in-memory stream so 10^8 executions do not write to disk and the
   log of each execution can be inspected. A build flag of the harness, not an edit of the generated text. */
#ifndef VERIF_IO_H
#define VERIF_IO_H
#include <stdio.h>
#include <string.h>
#ifdef __cplusplus
extern "C" {
#endif
extern char *verif_log_buf;
extern size_t verif_log_len;
static inline FILE *verif_fopen(const char *path, const char *mode) {
    if (strcmp(path, "naunet_error_record.txt") == 0) return open_memstream(&verif_log_buf, &verif_log_len);
    return fopen(path, mode);
}
#ifdef __cplusplus
}
#endif
#define fopen(p, m) verif_fopen(p, m)
#endif
