// C19 (Odeint back-end): the shim's integrate_adaptive is scripted (number of steps, step at which
// the system function throws); the rendered Observer / Solve decide success or failure.
#include <math.h>
#include <stdio.h>
#include <stdlib.h>
#include <string>
#include <vector>
#include "naunet.h"
#include "naunet_data.h"
#include "naunet_macros.h"

char *verif_log_buf = NULL;
size_t verif_log_len = 0;

struct V { int mxsteps, steps, throw_at; std::string kind, what; };

int main() {
    using boost::numeric::odeint::verif_odeint_script;
    std::vector<V> viols;
    unsigned long long runs = 0, succ = 0, fail = 0, boundary = 0;
    const int budgets[] = {1, 2, 5, 500};
    for (int b = 0; b < 4; b++) {
        int mx = budgets[b];
        for (int n = 0; n <= mx + 3; n++) {
            for (int thr = 0; thr <= n; thr++) for (int via = 0; via < 2; via++) {   // via 1: the budget is set through Reset after an Init with another one
                if (mx == 500 && thr > 3 && thr < n - 1) continue;   // 500-step budget: throw positions {1,2,3,n-1,n}
                verif_odeint_script().nsteps = n;
                verif_odeint_script().throw_at = thr;
                verif_odeint_script().unit_rate = 1;
                Naunet naunet; NaunetData data; data.nH = 1.0; data.Tgas = 10.0;
                double y[NEQUATIONS]; const double y0 = 0.25, dt = 3.0;
                for (int i = 0; i < NEQUATIONS; i++) y[i] = y0;
                if (via == 0) naunet.Init(1, 1e-20, 1e-5, mx);
                else { naunet.Init(1, 1e-20, 1e-5, mx == 500 ? 3 : 500); naunet.Reset(1, 1e-20, 1e-5, mx); }
                int ret = naunet.Solve(y, dt, &data);
                naunet.Finalize();
                free(verif_log_buf); verif_log_buf = NULL; verif_log_len = 0;
                runs++;
                char buf[256];
                if (ret == NAUNET_SUCCESS) succ++; else fail++;
                if (thr >= 1) {
                    // the system function failed (std::runtime_error) at step thr <= n
                    bool budget_first = thr > mx;    // the observer would already have thrown
                    if (ret != NAUNET_FAIL) { snprintf(buf, sizeof buf, "system function threw at step %d but Solve returned %d", thr, ret); viols.push_back({mx, n, thr, "exception-not-reported", buf}); }
                    (void)budget_first;
                    continue;
                }
                if (n > mx) {
                    if (ret != NAUNET_FAIL) { snprintf(buf, sizeof buf, "%d steps taken with a budget of %d but Solve returned %d", n, mx, ret); viols.push_back({mx, n, thr, "budget-exceeded-not-reported", buf}); }
                } else if (n < mx) {
                    if (ret != NAUNET_SUCCESS) { snprintf(buf, sizeof buf, "%d steps within a budget of %d but Solve returned %d", n, mx, ret); viols.push_back({mx, n, thr, "spurious-failure", buf}); }
                    else if (n > 0 && fabs((y[0] - y0) - dt) > 1e-12 * dt) { snprintf(buf, sizeof buf, "SUCCESS but the state advanced by %.17g instead of %.17g", y[0] - y0, dt); viols.push_back({mx, n, thr, "state-not-copied-back", buf}); }
                } else {
                    boundary++;   // exactly the budget: accepted either way (steps vs observer calls is not fixed by the statement)
                }
            }
        }
    }
    printf("{\"runs\": %llu, \"success\": %llu, \"fail\": %llu, \"boundary_accepted\": %llu, \"violations\": [", runs, succ, fail, boundary);
    for (size_t i = 0; i < viols.size(); i++)
        printf("%s{\"mxsteps\": %d, \"steps\": %d, \"throw_at\": %d, \"kind\": \"%s\", \"what\": \"%s\"}", i ? "," : "", viols[i].mxsteps, viols[i].steps, viols[i].throw_at, viols[i].kind.c_str(), viols[i].what.c_str());
    printf("]}\n");
    return 0;
}
