// trivial definitions of the CVODE entry points for harnesses that link the rendered naunet.cpp
// but never integrate (C16 renormalisation conformance, C10 link step).  What the library registers is kept:
// CVode() then does the one thing C03's "library objects" clause needs from an integrator - it asks the registered
// Jacobian routine to fill the registered matrix at the current state.
#include <cvode/cvode.h>
#include <stdlib.h>
void *CVodeCreate(int, SUNContext) { return malloc(8); }
void CVodeFree(void **m) { if (m && *m) { free(*m); *m = NULL; } }
SUNMatrix verif_cv_matrix = NULL; CVLsJacFn verif_cv_jac = NULL; void *verif_cv_udata = NULL; int verif_cv_jac_ret = 0;
int CVodeInit(void *, CVRhsFn, realtype, N_Vector) { return 0; }
int CVodeReInit(void *, realtype, N_Vector) { return 0; }
int CVodeSStolerances(void *, realtype, realtype) { return 0; }
int CVodeSetErrFile(void *, FILE *) { return 0; }
int CVodeSetMaxNumSteps(void *, long int) { return 0; }
int CVodeSetUserData(void *, void *u) { verif_cv_udata = u; return 0; }
int CVodeSetLinearSolver(void *, SUNLinearSolver, SUNMatrix A) { verif_cv_matrix = A; return 0; }
int CVodeSetJacFn(void *, CVLsJacFn f) { verif_cv_jac = f; return 0; }
int CVodeSetJacTimes(void *, void *, CVLsJacTimesVecFn) { return 0; }
int CVode(void *, realtype tout, N_Vector y, realtype *tret, int) {
    if (verif_cv_jac && verif_cv_matrix) verif_cv_jac_ret = verif_cv_jac(0.0, y, y, verif_cv_matrix, verif_cv_udata, NULL, NULL, NULL);
    *tret = tout;
    return 0;
}
int CVodeGetCurrentTime(void *, realtype *t) { *t = 0; return 0; }
int CVodeGetNumSteps(void *, long int *n) { *n = 0; return 0; }
int CVodeGetNumRhsEvals(void *, long int *n) { *n = 0; return 0; }
int CVodeGetNumLinSolvSetups(void *, long int *n) { *n = 0; return 0; }
int CVodeGetNumErrTestFails(void *, long int *n) { *n = 0; return 0; }
int CVodeGetNumNonlinSolvIters(void *, long int *n) { *n = 0; return 0; }
int CVodeGetNumNonlinSolvConvFails(void *, long int *n) { *n = 0; return 0; }
int CVodeGetNumJacEvals(void *, long int *n) { *n = 0; return 0; }
int CVodeGetNumGEvals(void *, long int *n) { *n = 0; return 0; }
