// trivial definitions of the CVODE entry points for harnesses that link the rendered naunet.cpp
// but never integrate (C16 renormalisation conformance).
#include <cvode/cvode.h>
#include <stdlib.h>
void *CVodeCreate(int, SUNContext) { return malloc(8); }
void CVodeFree(void **m) { if (m && *m) { free(*m); *m = NULL; } }
int CVodeInit(void *, CVRhsFn, realtype, N_Vector) { return 0; }
int CVodeReInit(void *, realtype, N_Vector) { return 0; }
int CVodeSStolerances(void *, realtype, realtype) { return 0; }
int CVodeSetErrFile(void *, FILE *) { return 0; }
int CVodeSetMaxNumSteps(void *, long int) { return 0; }
int CVodeSetUserData(void *, void *) { return 0; }
int CVodeSetLinearSolver(void *, SUNLinearSolver, SUNMatrix) { return 0; }
int CVodeSetJacFn(void *, CVLsJacFn) { return 0; }
int CVodeSetJacTimes(void *, void *, CVLsJacTimesVecFn) { return 0; }
int CVode(void *, realtype tout, N_Vector, realtype *tret, int) { *tret = tout; return 0; }
int CVodeGetCurrentTime(void *, realtype *t) { *t = 0; return 0; }
int CVodeGetNumSteps(void *, long int *n) { *n = 0; return 0; }
int CVodeGetNumRhsEvals(void *, long int *n) { *n = 0; return 0; }
int CVodeGetNumLinSolvSetups(void *, long int *n) { *n = 0; return 0; }
int CVodeGetNumErrTestFails(void *, long int *n) { *n = 0; return 0; }
int CVodeGetNumNonlinSolvIters(void *, long int *n) { *n = 0; return 0; }
int CVodeGetNumNonlinSolvConvFails(void *, long int *n) { *n = 0; return 0; }
int CVodeGetNumJacEvals(void *, long int *n) { *n = 0; return 0; }
int CVodeGetNumGEvals(void *, long int *n) { *n = 0; return 0; }
